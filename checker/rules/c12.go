package rules

import (
	"go/token"
	"strings"

	"golang.org/x/tools/go/ssa"

	"lbcheck/eng"
	"lbcheck/ir"
)

func init() {
	register(&Property{ID: "C12", Level: "other", Run: runC12,
		Technique:   "static analysis: iteration-order classification of every map range in the group code, comparator shape, value identity in the rebalance, epoch-fence guard dominance (go/ssa)",
		LevelText:   "Structural clauses decided for all paths: every traversal whose order can influence assignments goes through the sorted iterator (rangeStreamsOrdered) and the remaining map ranges are order-insensitive; the heap comparator is a total order (ties broken by consumer id); the rebalance resets every subscriber of the stream, then gives each partition 0..n-1 to the Peek() of that stream's heap; group mutators are fenced by the group epoch; assignments are served only by the coordinator for the current epoch and as copies; stream deletion must not rebalance asynchronously to later applies. The exactly-one / differ-by-at-most-one arithmetic over all histories is not decided.",
		LevelNote:   "Trusted: go/ssa; container/heap semantics (Init restores the invariant, index 0 is a minimum).",
		DesignRef:   "DESIGN.md §4 C12",
		Explanation: "R12.1 order-independence of traversals in groups.go, R12.2 comparator total order, R12.3 rebalance uses the right heap and covers all partitions, R12.4 epoch fences and coordinator-only copies, R12.5 (= R06.2a) no asynchronous rebalance on the apply path. NOT decided: the balance arithmetic over all histories.",
	})
}

func runC12(c *eng.Ctx) {
	p := c.P

	// ---- R12.1 order independence
	c.Rule("R12.1", "K8")
	cfg := eng.OrderConfig{OrderedCalls: c06OrderedCalls, SetFields: c06SetFields}
	n := 0
	for _, fn := range p.Funcs {
		if fn.Pkg == nil || ir.Short(fn.Pkg.Pkg.Path()) != "server" {
			continue
		}
		file := p.Fset.Position(fn.Pos()).Filename
		if !strings.HasSuffix(file, "/groups.go") {
			continue
		}
		for _, ml := range eng.MapLoops(fn) {
			n++
			k := ir.FuncKey(fn)
			construct := "map range over " + eng.Describe(ml.Range.X) + " in " + k
			fs := ml.Classify(p, cfg)
			if len(fs) == 0 {
				c.OK(construct, c.Pos(ml.Range), "order-insensitive")
				continue
			}
			if why, ok := c06Unordered[ir.FuncKey(ir.Outermost(fn))]; ok && allCollect(fs) {
				c.OK(construct, c.Pos(ml.Range), "accepted unordered collection: "+why)
				continue
			}
			var ds []string
			for _, f := range fs {
				ds = append(ds, f.Kind+" at "+c.Pos(f.Instr)+": "+f.Detail)
			}
			c.Violate(construct, c.Pos(ml.Range), "map iteration order can influence group assignments: "+strings.Join(ds, "; "))
		}
	}
	// the rebalancing entry points are called from sorted iteration or straight-line code only
	for _, s := range eng.Index(p).Sites("server.consumerGroup.balanceAssignmentsForStream") {
		inMapLoop := false
		for _, ml := range eng.MapLoops(s.Fn) {
			if ml.Body[s.Instr.Block()] {
				inMapLoop = true
			}
		}
		c.Check(!inMapLoop, "balanceAssignmentsForStream called from "+ir.FuncKey(s.Fn), c.Pos(s.Instr), "not inside a map range (sorted iterator callback or straight-line code)", "a stream is rebalanced once per element of a map range: the result depends on map iteration order and differs between servers")
	}
	if fn := c.Fn("server.rangeStreamsOrdered"); fn != nil {
		ok := len(eng.CallsIn(fn, "sort.Strings")) == 1
		c.Check(ok, "rangeStreamsOrdered sorts before calling back", p.Pos(fn.Pos()), "sort.Strings(keys) precedes the callbacks", "rangeStreamsOrdered no longer sorts the keys")
		if ok {
			srt := eng.CallsIn(fn, "sort.Strings")[0].(ssa.Instruction)
			eng.Instrs(fn, func(in ssa.Instruction) {
				if call, ok := in.(*ssa.Call); ok && eng.Param("f")(call.Call.Value) {
					g, w := eng.PrecededBy(fn, call, func(x ssa.Instruction) bool { return x == srt })
					c.Check(g, "callbacks run after the sort", c.Pos(call), "f(stream) only after sort.Strings", "a callback can run before the keys are sorted (path "+w.String()+")")
				}
			})
		}
	}
	if n < 8 {
		c.Unresolved("map ranges in groups.go")
	}
	c.Floor(12)

	// ---- R12.2 comparator
	c.Rule("R12.2", "K1")
	if fn := c.Fn("server.(consumerHeap).Less"); fn != nil {
		cnt := func(v ssa.Value) bool { return eng.LoadNamed("assignedCount", nil)(v) }
		id := func(v ssa.Value) bool { return eng.LoadNamed("id", nil)(v) }
		tie := eng.CmpEdges(fn, cnt, cnt, eng.EQ)
		okTie, okCnt := false, false
		for _, r := range eng.Returns(fn) {
			if eng.Bin(token.LSS, id, id)(r.Results[0]) {
				g, _ := eng.GuardedBy(fn, r, tie)
				okTie = g && len(tie) > 0
			}
			if eng.Bin(token.LSS, cnt, cnt)(r.Results[0]) {
				okCnt = true
			}
		}
		c.Check(okCnt, "heap orders by assignment count", p.Pos(fn.Pos()), "c[i].assignedCount < c[j].assignedCount", "consumerHeap.Less does not order by assignedCount")
		c.Check(okTie, "ties are broken by consumer id", p.Pos(fn.Pos()), "on equal counts: c[i].id < c[j].id", "consumerHeap.Less has no deterministic tie-break on equal counts: the minimum depends on heap layout, so servers assign differently")
	}
	c.Floor(2)

	// ---- R12.3 rebalance
	c.Rule("R12.3", "K5")
	if fn := c.Fn("server.(*consumerGroup).balanceAssignmentsForStream"); fn != nil {
		ap := eng.CallsIn(fn, "server.consumerGroup.assignPartition")
		if len(ap) != 1 {
			c.Unresolved("assignPartition call in balanceAssignmentsForStream")
		} else {
			a := ap[0].Common().Args
			pk := eng.AsCall(a[3])
			okPeek := pk != nil && eng.CalleeRef(&pk.Call) == "server.consumerHeap.Peek"
			// the heap peeked is c.subscribers[streamName]
			okHeap := false
			if okPeek {
				hv := eng.Strip(pk.Call.Args[0])
				if u, ok := hv.(*ssa.UnOp); ok {
					hv = u.X
				}
				if e, ok := eng.Strip(hv).(*ssa.Extract); ok {
					if lk, ok := e.Tuple.(*ssa.Lookup); ok {
						okHeap = eng.LoadNamed("subscribers", nil)(lk.X) && eng.Param("streamName")(lk.Index)
					}
				} else if lk, ok := eng.Strip(hv).(*ssa.Lookup); ok {
					okHeap = eng.LoadNamed("subscribers", nil)(lk.X) && eng.Param("streamName")(lk.Index)
				}
			}
			c.Check(okPeek && okHeap && eng.Param("streamName")(a[1]), "partition goes to the least-loaded subscriber of this stream", c.Pos(ap[0].(ssa.Instruction)), "assignPartition(streamName, partition, c.subscribers[streamName].Peek())", "the consumer that receives a partition is not the Peek() of the heap of the stream being balanced")
			// loop bound
			gp := false
			eng.Instrs(fn, func(in ssa.Instruction) {
				if call, ok := in.(*ssa.Call); ok && eng.LoadNamed("getStreamPartitions", nil)(call.Call.Value) && eng.Param("streamName")(call.Call.Args[0]) {
					gp = true
				}
			})
			lt := eng.CmpEdges(fn, eng.Same(a[2]), eng.AnyV, eng.LT)
			c.Check(gp && len(lt) > 0, "every partition of the stream is assigned", p.Pos(fn.Pos()), "partition runs from 0 while partition < getStreamPartitions(streamName)", "the rebalance loop is not bounded by getStreamPartitions(streamName)")
			okStart := false
			if ph, ok := a[2].(*ssa.Phi); ok {
				for _, e := range ph.Edges {
					if eng.IntConst(0)(e) {
						okStart = true
					}
				}
			}
			c.Check(okStart, "assignment starts at partition 0", p.Pos(fn.Pos()), "partition := 0", "the rebalance loop does not start at partition 0")
		}
		// reset before re-assignment
		rs := eng.CallsIn(fn, "server.consumer.removeStreamAssignments")
		okReset := len(rs) == 1 && eng.Param("streamName")(rs[0].Common().Args[1])
		c.Check(okReset, "previous assignments of the stream are reset for every subscriber", p.Pos(fn.Pos()), "removeStreamAssignments(streamName) for each subscriber", "balanceAssignmentsForStream does not reset the stream's assignments first: partitions end up assigned twice")
		if okReset && len(ap) == 1 {
			q := &eng.PathQuery{Fn: fn, FromAfter: []ssa.Instruction{ap[0].(ssa.Instruction)}, Target: func(x ssa.Instruction) bool { return x == rs[0].(ssa.Instruction) }}
			c.Check(q.Find() == nil, "reset precedes assignment", c.Pos(rs[0].(ssa.Instruction)), "no reset after an assignment", "assignments are reset after partitions were assigned")
			hi := eng.CallsIn(fn, "container/heap.Init")
			g, _ := eng.PrecededBy(fn, ap[0].(ssa.Instruction), func(x ssa.Instruction) bool { return len(hi) > 0 && x == hi[0].(ssa.Instruction) })
			c.Check(g, "heap invariant restored after the reset", c.Pos(ap[0].(ssa.Instruction)), "heap.Init(subscribers) before the first Peek", "the heap is not re-initialised after counts changed: Peek() is not a minimum")
		}
	}
	if fn := c.Fn("server.(*consumerGroup).assignPartition"); fn != nil {
		ok := len(eng.CallsIn(fn, "server.consumer.assignPartition")) == 1 && len(eng.CallsIn(fn, "container/heap.Init")) >= 1
		c.Check(ok, "heaps re-initialised after each assignment", p.Pos(fn.Pos()), "heap.Init for every heap the consumer is in", "the heaps containing the consumer are not re-initialised after its count changed")
	}
	if fn := c.Fn("server.(*consumer).assignPartition"); fn != nil {
		okCnt := false
		eng.Instrs(fn, func(in ssa.Instruction) {
			if st, ok := in.(*ssa.Store); ok {
				if fa, ok := st.Addr.(*ssa.FieldAddr); ok && eng.FieldNameOf(fa) == "assignedCount" && eng.Bin(token.ADD, eng.LoadNamed("assignedCount", nil), eng.IntConst(1))(st.Val) {
					okCnt = true
				}
			}
		})
		c.Check(okCnt, "load counter tracks assignments", p.Pos(fn.Pos()), "assignedCount++ per assigned partition", "assignedCount is not incremented per assignment: the least-loaded choice is wrong")
	}
	if fn := c.Fn("server.(*consumer).removeStreamAssignments"); fn != nil {
		okCnt := false
		eng.Instrs(fn, func(in ssa.Instruction) {
			if st, ok := in.(*ssa.Store); ok {
				if fa, ok := st.Addr.(*ssa.FieldAddr); ok && eng.FieldNameOf(fa) == "assignedCount" && eng.Bin(token.SUB, eng.LoadNamed("assignedCount", nil), eng.Len(nil))(st.Val) {
					okCnt = true
				}
			}
		})
		c.Check(okCnt, "load counter released with the assignments", p.Pos(fn.Pos()), "assignedCount -= len(assignments[stream])", "assignedCount is not reduced when a stream's assignments are dropped")
	}
	c.Floor(9)

	// ---- R12.4 fences
	c.Rule("R12.4", "K1")
	ge := p.Field("server", "consumerGroup", "epoch")
	for _, k := range []string{"AddMember", "RemoveMember", "StreamDeleted", "SetCoordinator"} {
		fn := c.Fn("server.(*consumerGroup)." + k)
		if fn == nil {
			continue
		}
		fresh := eng.CmpEdges(fn, eng.Param("epoch"), eng.Load(ge, nil), eng.GE)
		// every mutation of members/subscribers/coordinator in this function is behind the fence
		nm := 0
		eng.Instrs(fn, func(in ssa.Instruction) {
			isMut := false
			switch x := in.(type) {
			case *ssa.Store:
				if fa, ok := x.Addr.(*ssa.FieldAddr); ok && ownerName(fa) == "consumerGroup" && replicatedFieldName(eng.FieldNameOf(fa), "consumerGroup") {
					isMut = true
				}
			case *ssa.Call:
				ref := eng.CalleeRef(&x.Call)
				if ref == "server.consumerGroup.addMember" || ref == "server.consumerGroup.removeConsumer" || ref == "server.consumerGroup.balanceAssignmentsForStream" || ref == "server.rangeStreamsOrdered" {
					isMut = true
				}
				if b, ok := x.Call.Value.(*ssa.Builtin); ok && b.Name() == "delete" {
					isMut = true
				}
			}
			if !isMut {
				return
			}
			nm++
			g, w := eng.GuardedBy(fn, in, fresh)
			c.Check(g && len(fresh) > 0, "group mutation in "+k+" behind the epoch fence", c.Pos(in), "reached only when ¬(epoch < c.epoch)", "the group is mutated by an operation carrying an older epoch (path "+w.String()+")")
		})
		if nm == 0 {
			c.Unresolved("mutations in consumerGroup." + k)
		}
	}
	if fn := c.Fn("server.(*consumerGroup).GetAssignments"); fn != nil {
		coord := eng.CmpEdges(fn, eng.LoadNamed("coordinator", nil), eng.LoadNamed("serverID", nil), eng.EQ)
		cur := eng.CmpEdges(fn, eng.Param("epoch"), eng.Load(ge, nil), eng.EQ)
		for _, r := range eng.Returns(fn) {
			rv := eng.RetVals(r)
			if len(rv) == 3 && eng.NilConst(rv[2]) {
				g1, _ := eng.GuardedBy(fn, r, coord)
				g2, _ := eng.GuardedBy(fn, r, cur)
				c.Check(g1 && g2 && len(coord) > 0 && len(cur) > 0, "assignments served by the coordinator for the current epoch", c.Pos(r), "coordinator == serverID ∧ epoch == c.epoch", "assignments can be served by a non-coordinator or for a stale epoch")
				_, isMake := eng.Strip(rv[0]).(*ssa.MakeMap)
				c.Check(isMake, "assignments handed out as a copy", c.Pos(r), "a fresh map is returned", "GetAssignments returns the live assignment map: callers race with rebalances")
			}
		}
	}
	c.Floor(10)

	// ---- R12.6 acquire/release pairing
	c.Rule("R12.6", "K2")
	ruleLockPairing(c, "server/groups.go")
	c.Floor(10)

	// ---- R12.5 shared with C06
	c.Rule("R06.2", "K8")
	if fn := c.Fn("server.(*metadataAPI).removeStream"); fn != nil {
		eng.Instrs(fn, func(in ssa.Instruction) {
			call, ok := in.(*ssa.Call)
			if !ok || !strings.HasPrefix(eng.CalleeRef(&call.Call), "server.Server.startGoroutine") {
				return
			}
			var target *ssa.Function
			for _, a := range call.Call.Args {
				if f := funcValue(a); f != nil {
					target = f
				}
			}
			if target == nil {
				return
			}
			w := writesReplicated(c, target, map[*ssa.Function]bool{})
			c.Check(w == "", "goroutine started in server.(*metadataAPI).removeStream", c.Pos(in), "the asynchronous function writes no replicated field", "a goroutine started on the Raft apply path mutates replicated state ("+w+"): its effect is ordered arbitrarily against later applies, so servers can diverge")
		})
		sd := false
		eng.InstrsDeep(fn, func(_ *ssa.Function, in ssa.Instruction) {
			if ci, ok := in.(ssa.CallInstruction); ok && eng.CalleeRef(ci.Common()) == "server.consumerGroup.StreamDeleted" {
				sd = true
			}
		})
		c.Check(sd, "stream deletion reaches the groups", p.Pos(fn.Pos()), "StreamDeleted is invoked for every group", "removeStream no longer tells consumer groups about the deleted stream: assignments keep pointing at it")
	}
	c.Floor(1)
}
