package rules

import (
	"go/token"
	"go/types"
	"strings"

	"golang.org/x/tools/go/ssa"

	"lbcheck/eng"
	"lbcheck/ir"
)

func init() {
	register(&Property{ID: "C12", Level: "other", Run: runC12,
		Technique:   "static analysis: iteration-order classification of every map range in the group code, comparator shape, value identity in the rebalance, epoch-fence guard dominance (go/ssa)",
		LevelText:   "Structural clauses decided for all paths: every traversal whose order can influence assignments goes through the sorted iterator (rangeStreamsOrdered) and the remaining map ranges are order-insensitive; the heap comparator is a total order (ties broken by consumer id); the rebalance resets every subscriber of the stream, then gives each partition 0..n-1 to the Peek() of that stream's heap; group mutators are fenced by the group epoch; assignments are served only by the coordinator for the current epoch and as copies; stream deletion must not rebalance asynchronously to later applies. The exactly-one / differ-by-at-most-one arithmetic over all histories is not decided.",
		LevelNote:   "Trusted: go/ssa; container/heap semantics (Init restores the invariant, index 0 is a minimum).",
		DesignRef:   "DESIGN.md §4 C12",
		Explanation: "Round 12: R12.5 reads the per-stream walk of addConsumer / removeConsumer as a closure or as a loop (a loop must not return part-way). Rounds 9-10: R12.5 also: a repeated join is refused; a restored group replays the joins; after a member left a stream's heap the heap is tested for emptiness. R12.5 also (round 8): a joining consumer is pushed once per stream of its stream set, not per element of the join list. R12.8 also: the partition-count lookup is the metadata store's, not a memo around it; R12.5 also: no iteration of the loop that collects the streams to rebalance skips the collection. R12.5 also: a stream's subscriber heap goes with its last subscriber (F79); R12.8 a rebalance counts the stream's partitions when it runs. R12.1 order-independence of traversals in groups.go, R12.2 comparator total order, R12.3 rebalance uses the right heap and covers all partitions, R12.4 epoch fences and coordinator-only copies, R12.5 membership bookkeeping (join / leave / stream deletion update members, heaps and assignments together; presence tests; epoch advance; last-member result), R06.2 (shared) no asynchronous rebalance on the apply path and every group is told about a deleted stream, R06.8 (shared) restore order, R12.6 lock pairing. R14.6 (shared) the group sentinels arrive unwrapped at FetchConsumerGroupAssignments; R15.8 (shared) groups.* timeouts reach their Config fields. NOT decided: the balance arithmetic over all histories.",
	})
}

func runC12(c *eng.Ctx) {
	c.Rule("R12.5", "K5")
	ruleEmptySubscriberHeapIsDropped(c)
	ruleJoiningConsumerEntersEachStreamOnce(c)
	ruleRepeatedJoinIsRefused(c)
	ruleRestoredGroupReplaysTheJoins(c)
	c.Rule("R12.8", "K5")
	ruleRebalanceCountsPartitionsNow(c)
	p := c.P

	// ---- R12.1 order independence
	c.Rule("R12.1", "K8")
	cfg := eng.OrderConfig{OrderedCalls: c06OrderedCalls, SetFields: c06SetFields}
	n := 0
	for _, fn := range p.Funcs {
		if fn.Pkg == nil || ir.Short(fn.Pkg.Pkg.Path()) != "server" {
			continue
		}
		file := p.Fset.Position(fn.Pos()).Filename
		if !strings.HasSuffix(file, "/groups.go") {
			continue
		}
		for _, ml := range eng.MapLoops(fn) {
			n++
			k := ir.FuncKey(fn)
			construct := "map range over " + eng.Describe(ml.Range.X) + " in " + k
			fs := ml.Classify(p, cfg)
			if len(fs) == 0 {
				c.OK(construct, c.Pos(ml.Range), "order-insensitive")
				continue
			}
			if why, ok := c06Unordered[ir.FuncKey(ir.Outermost(fn))]; ok && allCollect(fs) {
				c.OK(construct, c.Pos(ml.Range), "accepted unordered collection: "+why)
				continue
			}
			var ds []string
			for _, f := range fs {
				ds = append(ds, f.Kind+" at "+c.Pos(f.Instr)+": "+f.Detail)
			}
			c.Violate(construct, c.Pos(ml.Range), "map iteration order can influence group assignments: "+strings.Join(ds, "; "))
		}
	}
	// the rebalancing entry points are called from sorted iteration or straight-line code only
	for _, s := range eng.Index(p).Sites("server.consumerGroup.balanceAssignmentsForStream") {
		inMapLoop := false
		for _, ml := range eng.MapLoops(s.Fn) {
			if ml.Body[s.Instr.Block()] {
				inMapLoop = true
			}
		}
		c.Check(!inMapLoop, "balanceAssignmentsForStream called from "+ir.FuncKey(s.Fn), c.Pos(s.Instr), "not inside a map range (sorted iterator callback or straight-line code)", "a stream is rebalanced once per element of a map range: the result depends on map iteration order and differs between servers")
	}
	if fn := c.Fn("server.rangeStreamsOrdered"); fn != nil {
		// the keys go through a sort (sort.Strings / slices.Sort on the collected keys, or slices.Sorted over the key
		// sequence) and the callbacks run over the sorted keys, not inside a range over the map itself
		ok := len(eng.CallsIn(fn, "sort.Strings", "slices.Sort", "slices.Sorted", "sort.Sort", "slices.SortFunc")) == 1
		for _, ml := range eng.MapLoops(fn) {
			for blk := range ml.Body {
				for _, in := range blk.Instrs {
					if call, isCall := in.(*ssa.Call); isCall && !call.Call.IsInvoke() {
						if _, isParam := call.Call.Value.(*ssa.Parameter); isParam {
							ok = false // the callback is invoked in map order
						}
					}
				}
			}
		}
		c.Check(ok, "rangeStreamsOrdered sorts before calling back", p.Pos(fn.Pos()), "sort.Strings(keys) precedes the callbacks", "rangeStreamsOrdered no longer sorts the keys")
		if ok {
			srt := eng.CallsIn(fn, "sort.Strings", "slices.Sort", "slices.Sorted", "sort.Sort", "slices.SortFunc")[0].(ssa.Instruction)
			eng.Instrs(fn, func(in ssa.Instruction) {
				if call, ok := in.(*ssa.Call); ok && eng.Param("f")(call.Call.Value) {
					g, w := eng.PrecededBy(fn, call, func(x ssa.Instruction) bool { return x == srt })
					c.Check(g, "callbacks run after the sort", c.Pos(call), "f(stream) only after sort.Strings", "a callback can run before the keys are sorted (path "+w.String()+")")
				}
			})
		}
	}
	if n < 8 {
		c.Unresolved("map ranges in groups.go")
	}
	c.Floor(12)

	// ---- R12.2 comparator
	c.Rule("R12.2", "K1")
	if fn := c.Fn("server.(consumerHeap).Less"); fn != nil {
		cnt := func(v ssa.Value) bool { return eng.LoadNamed("assignedCount", nil)(v) }
		id := func(v ssa.Value) bool { return eng.LoadNamed("id", nil)(v) }
		tie := eng.CmpEdges(fn, cnt, cnt, eng.EQ)
		okTie, okCnt := false, false
		for _, r := range eng.Returns(fn) {
			if eng.RelVal(id, id, eng.LT)(eng.RetVals(r)[0]) {
				g, _ := eng.GuardedBy(fn, r, tie)
				okTie = g && len(tie) > 0
			}
			if eng.RelVal(cnt, cnt, eng.LT)(eng.RetVals(r)[0]) {
				okCnt = true
			}
		}
		if _, all := allReturns(fn, nil, func(rv []ssa.Value) bool { return eng.RelVal(id, id, eng.LT)(rv[0]) }, func(rv []ssa.Value) bool { return eng.RelVal(cnt, cnt, eng.LT)(rv[0]) }); !all {
			okCnt = false
		}
		c.Check(okCnt, "heap orders by assignment count", p.Pos(fn.Pos()), "c[i].assignedCount < c[j].assignedCount", "consumerHeap.Less does not order by assignedCount")
		c.Check(okTie, "ties are broken by consumer id", p.Pos(fn.Pos()), "on equal counts: c[i].id < c[j].id", "consumerHeap.Less has no deterministic tie-break on equal counts: the minimum depends on heap layout, so servers assign differently")
	}
	c.Floor(2)

	// ---- R12.3 rebalance
	c.Rule("R12.3", "K5")
	if fn := c.Fn("server.(*consumerGroup).balanceAssignmentsForStream"); fn != nil {
		ap := eng.CallsIn(fn, "server.consumerGroup.assignPartition")
		if len(ap) != 1 {
			c.Unresolved("assignPartition call in balanceAssignmentsForStream")
		} else {
			a := ap[0].Common().Args
			pk := eng.AsCall(a[3])
			okPeek := pk != nil && eng.CalleeRef(&pk.Call) == "server.consumerHeap.Peek"
			// the heap peeked is c.subscribers[streamName]
			okHeap := false
			if okPeek {
				hv := eng.Strip(pk.Call.Args[0])
				if u, ok := hv.(*ssa.UnOp); ok {
					hv = u.X
				}
				if e, ok := eng.Strip(hv).(*ssa.Extract); ok {
					if lk, ok := e.Tuple.(*ssa.Lookup); ok {
						okHeap = eng.LoadNamed("subscribers", nil)(lk.X) && eng.Param("streamName")(lk.Index)
					}
				} else if lk, ok := eng.Strip(hv).(*ssa.Lookup); ok {
					okHeap = eng.LoadNamed("subscribers", nil)(lk.X) && eng.Param("streamName")(lk.Index)
				}
			}
			c.Check(okPeek && okHeap && eng.Param("streamName")(a[1]), "partition goes to the least-loaded subscriber of this stream", c.Pos(ap[0].(ssa.Instruction)), "assignPartition(streamName, partition, c.subscribers[streamName].Peek())", "the consumer that receives a partition is not the Peek() of the heap of the stream being balanced")
			// loop bound
			gp := false
			eng.Instrs(fn, func(in ssa.Instruction) {
				if call, ok := in.(*ssa.Call); ok && eng.LoadNamed("getStreamPartitions", nil)(call.Call.Value) && eng.Param("streamName")(call.Call.Args[0]) {
					gp = true
				}
			})
			lt := eng.CmpEdges(fn, eng.Same(a[2]), eng.AnyV, eng.LT)
			c.Check(gp && len(lt) > 0, "every partition of the stream is assigned", p.Pos(fn.Pos()), "partition runs from 0 while partition < getStreamPartitions(streamName)", "the rebalance loop is not bounded by getStreamPartitions(streamName)")
			okStart := false
			if ph, ok := a[2].(*ssa.Phi); ok {
				for _, e := range ph.Edges {
					if eng.IntConst(0)(e) {
						okStart = true
					}
				}
			}
			c.Check(okStart, "assignment starts at partition 0", p.Pos(fn.Pos()), "partition := 0", "the rebalance loop does not start at partition 0")
		}
		// reset before re-assignment
		rs := eng.CallsIn(fn, "server.consumer.removeStreamAssignments")
		okReset := len(rs) == 1 && eng.Param("streamName")(rs[0].Common().Args[1])
		c.Check(okReset, "previous assignments of the stream are reset for every subscriber", p.Pos(fn.Pos()), "removeStreamAssignments(streamName) for each subscriber", "balanceAssignmentsForStream does not reset the stream's assignments first: partitions end up assigned twice")
		if okReset && len(ap) == 1 {
			q := &eng.PathQuery{Fn: fn, FromAfter: []ssa.Instruction{ap[0].(ssa.Instruction)}, Target: func(x ssa.Instruction) bool { return x == rs[0].(ssa.Instruction) }}
			c.Check(q.Find() == nil, "reset precedes assignment", c.Pos(rs[0].(ssa.Instruction)), "no reset after an assignment", "assignments are reset after partitions were assigned")
			hi := eng.CallsIn(fn, "container/heap.Init")
			g, _ := eng.PrecededBy(fn, ap[0].(ssa.Instruction), func(x ssa.Instruction) bool { return len(hi) > 0 && x == hi[0].(ssa.Instruction) })
			c.Check(g, "heap invariant restored after the reset", c.Pos(ap[0].(ssa.Instruction)), "heap.Init(subscribers) before the first Peek", "the heap is not re-initialised after counts changed: Peek() is not a minimum")
		}
	}
	if fn := c.Fn("server.(*consumerGroup).assignPartition"); fn != nil {
		ok := len(eng.CallsIn(fn, "server.consumer.assignPartition")) == 1 && len(eng.CallsIn(fn, "container/heap.Init")) >= 1
		c.Check(ok, "heaps re-initialised after each assignment", p.Pos(fn.Pos()), "heap.Init for every heap the consumer is in", "the heaps containing the consumer are not re-initialised after its count changed")
	}
	if fn := c.Fn("server.(*consumer).assignPartition"); fn != nil {
		okCnt := false
		eng.Instrs(fn, func(in ssa.Instruction) {
			if st, ok := in.(*ssa.Store); ok {
				if fa, ok := st.Addr.(*ssa.FieldAddr); ok && eng.FieldNameOf(fa) == "assignedCount" && eng.Bin(token.ADD, eng.LoadNamed("assignedCount", nil), eng.IntConst(1))(st.Val) {
					okCnt = true
				}
			}
		})
		c.Check(okCnt, "load counter tracks assignments", p.Pos(fn.Pos()), "assignedCount++ per assigned partition", "assignedCount is not incremented per assignment: the least-loaded choice is wrong")
	}
	if fn := c.Fn("server.(*consumer).removeStreamAssignments"); fn != nil {
		okCnt := false
		eng.Instrs(fn, func(in ssa.Instruction) {
			if st, ok := in.(*ssa.Store); ok {
				if fa, ok := st.Addr.(*ssa.FieldAddr); ok && eng.FieldNameOf(fa) == "assignedCount" && eng.Bin(token.SUB, eng.LoadNamed("assignedCount", nil), eng.Len(nil))(st.Val) {
					okCnt = true
				}
			}
		})
		c.Check(okCnt, "load counter released with the assignments", p.Pos(fn.Pos()), "assignedCount -= len(assignments[stream])", "assignedCount is not reduced when a stream's assignments are dropped")
	}
	c.Floor(9)

	// ---- R12.4 fences
	c.Rule("R12.4", "K1")
	ge := p.Field("server", "consumerGroup", "epoch")
	for _, k := range []string{"AddMember", "RemoveMember", "StreamDeleted", "SetCoordinator"} {
		fn := c.Fn("server.(*consumerGroup)." + k)
		if fn == nil {
			continue
		}
		fresh := eng.CmpEdges(fn, eng.Param("epoch"), eng.Load(ge, nil), eng.GE)
		// every mutation of members/subscribers/coordinator in this function is behind the fence
		nm := 0
		eng.Instrs(fn, func(in ssa.Instruction) {
			isMut := false
			switch x := in.(type) {
			case *ssa.Store:
				if fa, ok := x.Addr.(*ssa.FieldAddr); ok && ownerName(fa) == "consumerGroup" && replicatedFieldName(eng.FieldNameOf(fa), "consumerGroup") {
					isMut = true
				}
			case *ssa.Call:
				ref := eng.CalleeRef(&x.Call)
				if ref == "server.consumerGroup.addMember" || ref == "server.consumerGroup.removeConsumer" || ref == "server.consumerGroup.balanceAssignmentsForStream" || ref == "server.rangeStreamsOrdered" {
					isMut = true
				}
				if b, ok := x.Call.Value.(*ssa.Builtin); ok && b.Name() == "delete" {
					isMut = true
				}
			}
			if !isMut {
				return
			}
			nm++
			g, w := eng.GuardedBy(fn, in, fresh)
			c.Check(g && len(fresh) > 0, "group mutation in "+k+" behind the epoch fence", c.Pos(in), "reached only when ¬(epoch < c.epoch)", "the group is mutated by an operation carrying an older epoch (path "+w.String()+")")
		})
		if nm == 0 {
			c.Unresolved("mutations in consumerGroup." + k)
		}
	}
	if fn := c.Fn("server.(*consumerGroup).GetAssignments"); fn != nil {
		coord := eng.CmpEdges(fn, eng.LoadNamed("coordinator", nil), eng.LoadNamed("serverID", nil), eng.EQ)
		cur := eng.CmpEdges(fn, eng.Param("epoch"), eng.Load(ge, nil), eng.EQ)
		for _, r := range eng.Returns(fn) {
			rv := eng.RetVals(r)
			if len(rv) == 3 && eng.NilConst(rv[2]) {
				g1, _ := eng.GuardedBy(fn, r, coord)
				g2, _ := eng.GuardedBy(fn, r, cur)
				c.Check(g1 && g2 && len(coord) > 0 && len(cur) > 0, "assignments served by the coordinator for the current epoch", c.Pos(r), "coordinator == serverID ∧ epoch == c.epoch", "assignments can be served by a non-coordinator or for a stale epoch")
				_, isMake := eng.Strip(rv[0]).(*ssa.MakeMap)
				c.Check(isMake, "assignments handed out as a copy", c.Pos(r), "a fresh map is returned", "GetAssignments returns the live assignment map: callers race with rebalances")
			}
		}
	}
	c.Floor(10)

	// ---- R12.5 membership bookkeeping: every join / leave / stream deletion updates members, subscriber heaps and assignments together
	c.Rule("R12.5", "K2")
	ruleGroupBookkeeping(c)
	c.Floor(25)

	c.Rule("R06.8", "K2")
	ruleRestoreOrder(c)
	c.Floor(1)

	// ---- R12.6 acquire/release pairing
	c.Rule("R12.6", "K2")
	ruleLockPairing(c, "server/groups.go")
	c.Floor(10)

	// ---- R12.5 shared with C06
	c.Rule("R06.2", "K8")
	if fn := c.Fn("server.(*metadataAPI).removeStream"); fn != nil {
		// removeStream and the helpers it calls in place (the notification may live in a helper shared with the replay path)
		reach := moduleReach(c, fn, 2)
		instrsOfAllFn(reach, func(host *ssa.Function, in ssa.Instruction) {
			call, ok := in.(*ssa.Call)
			if !ok || !strings.HasPrefix(eng.CalleeRef(&call.Call), "server.Server.startGoroutine") {
				return
			}
			var target *ssa.Function
			for _, a := range call.Call.Args {
				if f := funcValue(a); f != nil {
					target = f
				}
			}
			if target == nil {
				return
			}
			w := writesReplicated(c, target, map[*ssa.Function]bool{})
			c.Check(w == "", "goroutine started in "+ir.FuncKey(ir.Outermost(host)), c.Pos(in), "the asynchronous function writes no replicated field", "a goroutine started on the Raft apply path mutates replicated state ("+w+"): its effect is ordered arbitrarily against later applies, so servers can diverge")
		})
		sd := false
		var closures []*ssa.Function
		for _, f := range reach {
			if f.Parent() != nil {
				continue
			}
			eng.InstrsDeep(f, func(_ *ssa.Function, in ssa.Instruction) {
				if ci, ok := in.(ssa.CallInstruction); ok && eng.CalleeRef(ci.Common()) == "server.consumerGroup.StreamDeleted" {
					sd = true
				}
			})
			closures = append(closures, closuresOf(f)...)
		}
		// … every group, on every server: group state is replicated, not a coordinator-local cache
		for _, mc := range closures {
			for _, sdc := range eng.CallsIn(mc, "server.consumerGroup.StreamDeleted") {
				hdr := sdc.(ssa.Instruction).Block()
				for hdr != nil && !isLoopHeader(hdr) {
					hdr = hdr.Idom()
				}
				if hdr == nil {
					sd = false
					continue
				}
				var body []eng.Edge
				for si, sb := range hdr.Succs {
					if sb.Dominates(sdc.(ssa.Instruction).Block()) || sb == sdc.(ssa.Instruction).Block() {
						body = append(body, eng.Edge{From: hdr, Succ: si})
					}
				}
				q := &eng.PathQuery{Fn: mc, FromEdges: body, Target: func(x ssa.Instruction) bool { return x == hdr.Instrs[0] }, CutInstr: func(x ssa.Instruction) bool { return x == sdc.(ssa.Instruction) }}
				if q.Find() != nil {
					sd = false
				}
			}
		}
		c.Check(sd, "stream deletion reaches the groups", p.Pos(fn.Pos()), "StreamDeleted is invoked for every group", "removeStream does not tell every consumer group about the deleted stream (none, or only some — e.g. only those this server coordinates): on the other servers the members stay subscribed and keep its partitions, and after a coordinator change that stale state is served")
	}
	c.Floor(1)
	// ---- R14.6 the group errors reach FetchConsumerGroupAssignments' identity tests unwrapped
	nSent := ruleSentinelIdentity(c, "R14.6", []string{"server.(*apiServer).FetchConsumerGroupAssignments"}, "a member is not told that it lost membership / the coordinator moved / its epoch is stale, and keeps consuming partitions that now belong to someone else")
	c.Check(nSent >= 4, "group sentinels resolved", "", "identity comparisons with the consumer-group sentinels resolved to their producers", "fewer identity comparisons with group sentinels than on the reference tree")
	// ---- R15.8 (shared) the configuration keys this property's switches hang on reach their fields
	ruleConfigWiring(c, "R15.8")

	c.Rule("R06.6", "K2")
	ruleReplayedDeleteNotifiesGroups(c)

	c.Rule("R06.4", "K6")
	ruleSnapshotCarriesAssignments(c)

}

// freeVarNamed matches a variable captured from the enclosing function: Strip resolves a single-store captured cell to the
// value stored (the enclosing function's parameter); otherwise the free variable itself is matched.
func freeVarNamed(name string) eng.VM {
	return func(v ssa.Value) bool {
		if eng.Param(name)(v) {
			return true
		}
		orig := eng.Strip(v)
		v = orig
		if u, ok := v.(*ssa.UnOp); ok && u.Op == token.MUL {
			v = u.X
		}
		if fv, ok := v.(*ssa.FreeVar); ok {
			return fv.Name() == name
		}
		// captured parameters bundled into a struct: the field of that name of a captured variable / parameter
		if f, base := eng.FieldRead(orig); f != nil && f.Name() == name && base != nil {
			b := base
			if u, ok := b.(*ssa.UnOp); ok && u.Op == token.MUL {
				b = u.X
			}
			switch x := b.(type) {
			case *ssa.FreeVar:
				for _, other := range x.Parent().FreeVars {
					if other.Name() == name {
						return false
					}
				}
				return true
			case *ssa.Parameter:
				return true
			}
			if _, isP := eng.Strip(base).(*ssa.Parameter); isP {
				return true
			}
		}
		return false
	}
}

// isLoopHeader: the block has a predecessor that it dominates (a back edge).
func isLoopHeader(b *ssa.BasicBlock) bool {
	for _, pr := range b.Preds {
		if b.Dominates(pr) {
			return true
		}
	}
	return false
}

// streamWalk is the code a group method runs once for each stream of a consumer: the closure it hands to rangeStreamsOrdered
// (the form on the reference tree) or, when the walk is written as a loop over the sorted stream names, the body of that
// loop. "The end of the walk of one stream" is a return of the closure, or a return / the edge back to the loop header.
type streamWalk struct {
	fn      *ssa.Function
	entry   bool       // closure: paths start at the entry
	from    []eng.Edge // loop: paths start at the edge into the body
	hdr     *ssa.BasicBlock
	stream  eng.VM // the stream name of this round
	endEdge func(eng.Edge) bool
}

func isRet(in ssa.Instruction) bool { _, ok := in.(*ssa.Return); return ok }

// resolveStreamWalk finds the per-stream code of outerKey; loud records an unresolved anchor when there is none.
func resolveStreamWalk(c *eng.Ctx, outerKey string, subsF *types.Var, loud bool) *streamWalk {
	if fn := c.FnQuiet(outerKey + "$1"); fn != nil {
		return &streamWalk{fn: fn, entry: true, stream: eng.Param("stream"), endEdge: func(eng.Edge) bool { return false }}
	}
	outer := c.FnQuiet(outerKey)
	if outer != nil {
		// the loop whose body looks the round's stream up in c.subscribers, the key being the loop's element
		var found *streamWalk
		n := 0
		eng.Instrs(outer, func(in ssa.Instruction) {
			lk, ok := in.(*ssa.Lookup)
			if !ok || !lk.CommaOk || !eng.Load(subsF, nil)(lk.X) {
				return
			}
			ld, ok := eng.Strip(lk.Index).(*ssa.UnOp)
			if !ok || ld.Op != token.MUL {
				return
			}
			ia, ok := ld.X.(*ssa.IndexAddr)
			if !ok {
				return
			}
			ix, ok := ia.Index.(ssa.Instruction)
			if !ok || !isLoopHeader(ix.Block()) || len(ix.Block().Succs) != 2 {
				return
			}
			h := ix.Block()
			if !h.Dominates(lk.Block()) {
				return
			}
			n++
			elem := ssa.Value(ld)
			found = &streamWalk{fn: outer, from: []eng.Edge{{From: h, Succ: 0}}, hdr: h,
				stream: func(v ssa.Value) bool { return eng.Strip(v) == elem },
				endEdge: func(e eng.Edge) bool {
					return e.To() == h && e.From != nil && h.Dominates(e.From) && e.From != h || e.To() == h && e.From == h
				},
			}
		})
		if n == 1 {
			return found
		}
	}
	if loud {
		c.Unresolved("function " + outerKey + "$1 (or a loop over the consumer's sorted streams in " + outerKey + ")")
	}
	return nil
}

// complete: a walk written as a loop visits every stream — no round returns from the function (in a closure a return ends
// the round only, in a loop it abandons the streams that are left).
func (w *streamWalk) complete() *eng.Witness {
	if w.hdr == nil {
		return nil
	}
	q := &eng.PathQuery{Fn: w.fn, FromEdges: w.from, Target: isRet, CutInstr: func(x ssa.Instruction) bool { return x.Block() == w.hdr }}
	return q.Find()
}

// mustPass: no way from the start of a stream's round to its end that avoids pass.
func (w *streamWalk) mustPass(pass func(ssa.Instruction) bool) *eng.Witness {
	q := &eng.PathQuery{Fn: w.fn, FromEntry: w.entry, FromEdges: w.from, Target: isRet, TargetEdge: w.endEdge, CutInstr: pass}
	return q.Find()
}

// ruleGroupBookkeeping (R12.5, shared with C06): joins, leaves and stream deletions update members, subscriber heaps and
// assignments together, so that the in-memory group state stays the function of (members, subscriptions, partitions) that a
// restore recomputes from scratch.
func ruleGroupBookkeeping(c *eng.Ctx) {
	ruleGroupLeaveAndDeleteCoverEveryone(c)
	p := c.P
	ge := p.Field("server", "consumerGroup", "epoch")
	isBuiltin := func(name string, argv ...eng.VM) func(ssa.Instruction) bool {
		return func(in ssa.Instruction) bool {
			call, ok := in.(*ssa.Call)
			if !ok {
				return false
			}
			b, ok := call.Call.Value.(*ssa.Builtin)
			if !ok || b.Name() != name {
				return false
			}
			for i, m := range argv {
				if m != nil && (i >= len(call.Call.Args) || !m(call.Call.Args[i])) {
					return false
				}
			}
			return true
		}
	}
	succ := func(nres int) func(ssa.Instruction) bool {
		return func(in ssa.Instruction) bool {
			r, ok := in.(*ssa.Return)
			if !ok {
				return false
			}
			rv := eng.RetVals(r)
			return len(rv) == nres && (nres == 0 || eng.NilConst(rv[nres-1]))
		}
	}
	// mustPass: no path from the start points to a target avoids an instruction satisfying pass
	mustPass := func(fn *ssa.Function, fromEdges []eng.Edge, entry bool, target, pass func(ssa.Instruction) bool) *eng.Witness {
		q := &eng.PathQuery{Fn: fn, FromEntry: entry, FromEdges: fromEdges, Target: target, CutInstr: pass}
		return q.Find()
	}
	exists := func(fn *ssa.Function, pred func(ssa.Instruction) bool) bool {
		found := false
		eng.Instrs(fn, func(in ssa.Instruction) {
			if pred(in) {
				found = true
			}
		})
		return found
	}
	membersF := p.Field("server", "consumerGroup", "members")
	subsF := p.Field("server", "consumerGroup", "subscribers")
	if fn := c.Fn("server.(*consumerGroup).AddMember"); fn != nil {
		w := mustPass(fn, nil, true, succ(1), eng.IsCallTo("server.consumerGroup.addMember"))
		c.Check(w == nil, "a join that is accepted adds the member", p.Pos(fn.Pos()), "every successful return of AddMember passes addMember", "AddMember can report success without adding the member (path "+w.String()+")")
	}
	if fn := c.Fn("server.(*consumerGroup).addMember"); fn != nil {
		var newCons ssa.Value
		eng.Instrs(fn, func(in ssa.Instruction) {
			if mu, ok := in.(*ssa.MapUpdate); ok && eng.Load(membersF, nil)(mu.Map) && eng.Param("consumerID")(mu.Key) {
				newCons = mu.Value
			}
		})
		okAdd := false
		for _, ac := range eng.CallsIn(fn, "server.consumerGroup.addConsumer") {
			if newCons != nil && ac.Common().Args[1] == newCons {
				okAdd = true
			}
		}
		w := mustPass(fn, nil, true, func(in ssa.Instruction) bool { _, ok := in.(*ssa.Return); return ok }, eng.IsCallTo("server.consumerGroup.addConsumer"))
		c.Check(newCons != nil && okAdd && w == nil, "a new member is registered and enters the subscriber heaps", p.Pos(fn.Pos()), "c.members[consumerID] = cons; addConsumer(cons)", "addMember does not both store the consumer under its id and add that same consumer to the subscriber heaps: it is a member without assignments or holds assignments without being a member")
	}
	if sw := resolveStreamWalk(c, "server.(*consumerGroup).addConsumer", subsF, true); sw != nil {
		fn := sw.fn
		anyRet := isRet
		if sw.hdr != nil {
			wc := sw.complete()
			c.Check(wc == nil, "the walk over a joining consumer's streams visits every stream", p.Pos(fn.Pos()), "no return inside the loop over the consumer's streams", "addConsumer's loop returns part-way (path "+wc.String()+"): the streams after that one never get the consumer in their heap")
		}
		w1 := sw.mustPass(eng.IsCallTo("container/heap.Push"))
		w2 := sw.mustPass(eng.IsCallTo("server.consumerGroup.balanceAssignmentsForStream"))
		okPush := false
		for _, hp := range eng.CallsIn(fn, "container/heap.Push") {
			a := hp.Common().Args
			if len(a) == 2 {
				if freeVarNamed("cons")(a[1]) {
					okPush = true
				}
			}
		}
		// a heap created for a first subscriber is stored
		absent := eng.BoolEdges(fn, eng.AnyV, false)
		okStore := false
		eng.Instrs(fn, func(in ssa.Instruction) {
			if mu, ok := in.(*ssa.MapUpdate); ok && eng.Load(subsF, nil)(mu.Map) && sw.stream(mu.Key) {
				okStore = true
			}
		})
		_ = absent
		c.Check(w1 == nil && w2 == nil && okPush && okStore, "a joining consumer enters the heap of each of its streams and the stream is rebalanced", p.Pos(fn.Pos()), "heap.Push(subscribers, cons) and balanceAssignmentsForStream(stream) on every path; a new heap is stored in c.subscribers", "for some stream of a joining consumer the heap push, the rebalance or the registration of a new heap is skipped: its partitions stay with the old members or with nobody")
		// rebalance after the push
		for _, hp := range eng.CallsIn(fn, "container/heap.Push") {
			q := &eng.PathQuery{Fn: fn, FromAfter: []ssa.Instruction{hp.(ssa.Instruction)}, Target: anyRet, TargetEdge: sw.endEdge, CutInstr: eng.IsCallTo("server.consumerGroup.balanceAssignmentsForStream")}
			w := q.Find()
			c.Check(w == nil, "rebalance follows the push", c.Pos(hp.(ssa.Instruction)), "balanceAssignmentsForStream after heap.Push", "the stream is rebalanced before the new consumer is in its heap (path "+w.String()+")")
		}
	}
	if sw := resolveStreamWalk(c, "server.(*consumerGroup).removeConsumer", subsF, true); sw != nil {
		fn := sw.fn
		if sw.hdr != nil {
			wc := sw.complete()
			c.Check(wc == nil, "the walk over a leaving consumer's streams visits every stream", p.Pos(fn.Pos()), "no return inside the loop over the consumer's streams", "removeConsumer's loop returns part-way (path "+wc.String()+"): the consumer stays in the heaps of the streams after that one and keeps being handed partitions nobody consumes")
		}
		rm := eng.CallsIn(fn, "container/heap.Remove")
		same := eng.CmpEdges(fn, freeVarNamed("cons"), eng.AnyV, eng.EQ)
		ok := len(rm) == 1 && len(same) > 0
		if ok {
			g, _ := eng.GuardedBy(fn, rm[0].(ssa.Instruction), same)
			ok = g
		}
		c.Check(ok, "a leaving consumer (and only it) is taken out of each heap", p.Pos(fn.Pos()), "heap.Remove(subscribers, i) exactly where cons == sub", "removeConsumer does not remove exactly the leaving consumer from the stream's heap: it keeps receiving partitions, or another member loses its place")
		bal := eng.CallsIn(fn, "server.consumerGroup.balanceAssignmentsForStream")
		okBal := len(bal) == 1
		if okBal && len(rm) == 1 {
			// the rebalance happens after the removal
			q := &eng.PathQuery{Fn: fn, FromAfter: []ssa.Instruction{bal[0].(ssa.Instruction)}, Target: func(in ssa.Instruction) bool { return in == rm[0].(ssa.Instruction) }, CutEdgeFn: sw.endEdge}
			okBal = q.Find() == nil
		}
		c.Check(okBal, "the stream is rebalanced after the consumer left its heap", p.Pos(fn.Pos()), "balanceAssignmentsForStream(stream) after heap.Remove", "the partitions of a leaving consumer are not redistributed (or are redistributed while it is still in the heap)")
	}
	if fn := c.Fn("server.(*consumerGroup).RemoveMember"); fn != nil {
		w1 := mustPass(fn, nil, true, succ(2), eng.IsCallTo("server.consumerGroup.removeConsumer"))
		w2 := mustPass(fn, nil, true, succ(2), isBuiltin("delete", eng.Load(membersF, nil), eng.Param("consumerID")))
		c.Check(w1 == nil && w2 == nil, "a leave that is accepted removes the member and its heap entries", p.Pos(fn.Pos()), "removeConsumer(consumer) and delete(c.members, consumerID) before every successful return", "RemoveMember can report success while the consumer stays in c.members or in the subscriber heaps")
		// the consumer passed to removeConsumer is the member looked up under consumerID
		okArg := false
		for _, rc := range eng.CallsIn(fn, "server.consumerGroup.removeConsumer") {
			if lk, ok := eng.Strip(rc.Common().Args[1]).(*ssa.Extract); ok {
				if l, ok := lk.Tuple.(*ssa.Lookup); ok && eng.Load(membersF, nil)(l.X) && eng.Param("consumerID")(l.Index) {
					okArg = true
				}
			}
		}
		c.Check(okArg, "the leaving member is the one registered under the id", p.Pos(fn.Pos()), "removeConsumer(c.members[consumerID])", "RemoveMember removes a consumer other than c.members[consumerID] from the heaps")
	}
	if fn := c.Fn("server.(*consumerGroup).StreamDeleted"); fn != nil {
		okSub := exists(fn, isBuiltin("delete", eng.LoadNamed("streams", nil), eng.Param("stream"))) && len(eng.CallsIn(fn, "server.consumer.removeStreamAssignments")) == 1
		found := eng.BoolEdges(fn, eng.AnyV, true)
		_ = found
		w := mustPass(fn, nil, true, func(in ssa.Instruction) bool { return eng.IsCallTo("server.rangeStreamsOrdered")(in) }, isBuiltin("delete", eng.Load(subsF, nil), eng.Param("stream")))
		okReb := false
		for _, rs := range eng.CallsIn(fn, "server.rangeStreamsOrdered") {
			if mc, ok := rs.Common().Args[1].(*ssa.MakeClosure); ok {
				if len(eng.CallsIn(mc.Fn.(*ssa.Function), "server.consumerGroup.balanceAssignmentsForStream")) == 1 {
					okReb = true
				}
			}
		}
		// every subscriber of the deleted stream contributes its other streams to the rebalance set: nothing between dropping
		// its assignments and collecting its streams may skip the collection (its load count changed, whatever it held)
		// (the collection may share the loop that drops the assignments, or be a loop of its own over the same subscribers:
		// what matters is that no iteration of the loop that collects skips the collection)
		nCollect := 0
		eng.Instrs(fn, func(in ssa.Instruction) {
			r, isR := in.(*ssa.Range)
			if !isR || !eng.LoadNamed("streams", nil)(r.X) {
				return
			}
			hdr := in.Block()
			for hdr != nil && !isLoopHeader(hdr) {
				hdr = hdr.Idom()
			}
			if hdr == nil || len(hdr.Instrs) == 0 {
				return
			}
			nCollect++
			first := hdr.Instrs[0]
			q := &eng.PathQuery{Fn: fn, FromAfter: []ssa.Instruction{first}, Target: func(x ssa.Instruction) bool { return x == first }, CutInstr: func(x ssa.Instruction) bool { return x == in }}
			if wq := q.Find(); wq != nil {
				okReb = false
			}
		})
		if nCollect == 0 {
			okReb = false
		}
		c.Check(okSub && w == nil && okReb, "a deleted stream leaves subscriptions, assignments and heaps, and the other streams are rebalanced", p.Pos(fn.Pos()), "per subscriber: delete(streams, stream), removeStreamAssignments(stream); delete(c.subscribers, stream); then rebalance the affected streams in sorted order", "StreamDeleted leaves the deleted stream in a subscription set, an assignment map or the subscriber table, or does not rebalance the streams whose load counts changed")
	}
	// presence tests: what is done for a missing entry and for an existing one must not be swapped
	commaOk := func(mapM eng.VM) eng.VM {
		return func(v ssa.Value) bool {
			ex, ok := v.(*ssa.Extract)
			if !ok || ex.Index != 1 {
				return false
			}
			l, ok := ex.Tuple.(*ssa.Lookup)
			return ok && l.CommaOk && mapM(l.X)
		}
	}
	guarded := func(fn *ssa.Function, pred func(ssa.Instruction) bool, edges []eng.Edge) (bool, int) {
		ok, n := len(edges) > 0, 0
		eng.Instrs(fn, func(in ssa.Instruction) {
			if pred(in) {
				n++
				if g, _ := eng.GuardedBy(fn, in, edges); !g {
					ok = false
				}
			}
		})
		return ok, n
	}
	if sw := resolveStreamWalk(c, "server.(*consumerGroup).addConsumer", subsF, false); sw != nil {
		fn := sw.fn
		absent := eng.BoolEdges(fn, commaOk(eng.Load(subsF, nil)), false)
		g, n := guarded(fn, func(in ssa.Instruction) bool {
			mu, ok := in.(*ssa.MapUpdate)
			return ok && eng.Load(subsF, nil)(mu.Map)
		}, absent)
		c.Check(g && n == 1, "a stream's heap is created only when it has none", p.Pos(fn.Pos()), "c.subscribers[stream] = &consumerHeap{} only on !ok", "addConsumer replaces the existing heap of a stream with an empty one: the consumers already subscribed lose their assignments at the next rebalance")
	}
	if sw := resolveStreamWalk(c, "server.(*consumerGroup).removeConsumer", subsF, false); sw != nil {
		fn := sw.fn
		had := eng.BoolEdges(fn, commaOk(eng.LoadNamed("assignments", nil)), true)
		g, n := guarded(fn, eng.IsCallTo("server.consumerGroup.balanceAssignmentsForStream"), had)
		present := eng.BoolEdges(fn, commaOk(eng.Load(subsF, nil)), true)
		g2, n2 := guarded(fn, eng.IsCallTo("container/heap.Remove"), present)
		// leaving the heap does not depend on having held partitions (with more subscribers than partitions a member holds none)
		for _, rmv := range eng.CallsIn(fn, "container/heap.Remove") {
			if gh, _ := eng.GuardedBy(fn, rmv.(ssa.Instruction), had); gh {
				g2 = false
			}
		}
		c.Check(g && n == 1 && g2 && n2 == 1, "a leave touches only streams that have a heap and rebalances those the consumer held partitions of", p.Pos(fn.Pos()), "heap.Remove on ok; rebalance when cons.assignments[stream] exists", "removeConsumer's presence tests are inverted or the heap removal depends on the consumer having held partitions: a member that leaves while holding nothing of a stream stays in its heap as a ghost and later receives partitions that no member consumes, or the partitions a leaving consumer held are not redistributed")
	}
	if fn := c.FnQuiet("server.(*consumerGroup).RemoveMember"); fn != nil {
		isMember := eng.BoolEdges(fn, commaOk(eng.Load(membersF, nil)), true)
		g, n := guarded(fn, eng.IsCallTo("server.consumerGroup.removeConsumer"), isMember)
		c.Check(g && n == 1, "only a registered member is removed", p.Pos(fn.Pos()), "removeConsumer on ok; ErrConsumerNotMember otherwise", "RemoveMember's membership test is inverted")
	}
	if fn := c.FnQuiet("server.(*consumerGroup).StreamDeleted"); fn != nil {
		has := eng.BoolEdges(fn, commaOk(eng.Load(subsF, nil)), true)
		g, n := guarded(fn, isBuiltin("delete", eng.Load(subsF, nil), eng.Param("stream")), has)
		c.Check(g && n == 1, "a stream deletion is applied when the group subscribes to the stream", p.Pos(fn.Pos()), "the early return is taken only when c.subscribers has no entry", "StreamDeleted returns early although the group subscribes to the stream (or proceeds without an entry)")
	}
	if fn := c.FnQuiet("server.(*consumerGroup).balanceAssignmentsForStream"); fn != nil {
		has := eng.BoolEdges(fn, commaOk(eng.Load(subsF, nil)), true)
		g, n := guarded(fn, eng.IsCallTo("server.consumerGroup.assignPartition"), has)
		some := eng.CmpEdges(fn, eng.Len(eng.AnyV), eng.IntConst(0), eng.NE)
		g2, _ := guarded(fn, eng.IsCallTo("server.consumerGroup.assignPartition"), some)
		c.Check(g && n == 1 && g2, "a stream with subscribers is balanced", p.Pos(fn.Pos()), "partitions are assigned when the heap exists and is not empty", "balanceAssignmentsForStream's early return is inverted: streams with subscribers are never balanced")
	}
	if fn := c.FnQuiet("server.(*consumer).assignPartition"); fn != nil {
		// the previous assignments of the stream are kept: the slice appended to is the looked-up one whenever it exists
		absent := eng.BoolEdges(fn, commaOk(eng.LoadNamed("assignments", nil)), false)
		ok := false
		eng.Instrs(fn, func(in ssa.Instruction) {
			call, isC := in.(*ssa.Call)
			if !isC {
				return
			}
			if b, isB := call.Call.Value.(*ssa.Builtin); !isB || b.Name() != "append" {
				return
			}
			base := call.Call.Args[0]
			isLookup := func(v ssa.Value) bool {
				ex, isE := v.(*ssa.Extract)
				if !isE || ex.Index != 0 {
					return false
				}
				_, isL := ex.Tuple.(*ssa.Lookup)
				return isL
			}
			switch x := base.(type) {
			case *ssa.Phi:
				ok = true
				for i, e := range x.Edges {
					if isLookup(e) {
						continue
					}
					// a fresh slice may replace the looked-up one only over an edge taken when the entry is absent
					pred := x.Block().Preds[i]
					fresh := false
					for _, ae := range absent {
						if ae.From == pred && ae.To() == x.Block() {
							fresh = true
						}
					}
					if !fresh && len(pred.Instrs) > 0 {
						if g, _ := eng.GuardedBy(fn, pred.Instrs[len(pred.Instrs)-1], absent); g && len(absent) > 0 {
							fresh = true
						}
					}
					if !fresh {
						ok = false
					}
				}
			default:
				ok = isLookup(base) || eng.LoadNamed("assignments", nil)(base)
			}
		})
		c.Check(ok, "a consumer's earlier partitions of a stream are kept when one more is assigned", p.Pos(fn.Pos()), "append to the existing slice; a fresh slice only when the stream has none", "consumer.assignPartition starts a fresh slice although the stream already has assignments: each consumer ends up with only its last partition")
	}
	if fn := c.FnQuiet("server.(*consumer).removeStreamAssignments"); fn != nil {
		c.Check(exists(fn, isBuiltin("delete", eng.LoadNamed("assignments", nil), eng.Param("stream"))), "a reset drops the stream's assignment list", p.Pos(fn.Pos()), "delete(c.assignments, stream)", "removeStreamAssignments keeps the old list: the next rebalance appends to it and partitions are held twice")
	}
	if fn := c.FnQuiet("server.(*consumerGroup).RemoveMember"); fn != nil {
		ok := false
		for _, r := range eng.Returns(fn) {
			rv := eng.RetVals(r)
			if len(rv) == 2 && eng.NilConst(rv[1]) {
				ok = eng.RelVal(eng.Len(eng.Load(membersF, nil)), eng.IntConst(0), eng.EQ)(rv[0])
			}
		}
		c.Check(ok, "the group is reported empty exactly when no member is left", p.Pos(fn.Pos()), "return len(c.members) == 0, nil", "RemoveMember's last-member result is not `len(c.members) == 0`: the caller deletes a group that still has members, or keeps empty groups")
	}
	if fn := c.FnQuiet("server.(*consumerGroup).GetAssignments"); fn != nil {
		isMember := eng.BoolEdges(fn, commaOk(eng.Load(membersF, nil)), true)
		okMem := false
		for _, r := range eng.Returns(fn) {
			rv := eng.RetVals(r)
			if len(rv) == 3 && eng.NilConst(rv[2]) {
				g, _ := eng.GuardedBy(fn, r, isMember)
				okMem = g && len(isMember) > 0
			}
		}
		okCopy := exists(fn, isBuiltin("copy", nil, nil)) || len(eng.CallsIn(fn, "slices.Clone", "bytes.Clone")) > 0
		c.Check(okMem && okCopy, "assignments are served to members, as a filled copy", p.Pos(fn.Pos()), "success only when consumerID is a member; copy(dst, partitions) per stream", "GetAssignments serves a non-member, or hands out freshly made slices without copying the partitions into them (every partition reads as 0)")
	}
	for _, k := range []string{"server.(*consumerGroup).assignPartition", "server.(*consumerGroup).StreamDeleted$1"} {
		if fn := c.FnQuiet(k); fn != nil {
			has := eng.BoolEdges(fn, commaOk(eng.Load(subsF, nil)), true)
			g, n := guarded(fn, eng.IsCallTo("container/heap.Init"), has)
			c.Check(g && n >= 1, "heap invariants are restored only for heaps that exist in "+fn.Name(), p.Pos(fn.Pos()), "heap.Init(subscribers) on ok", "heap.Init is called for a missing heap (nil) or skipped for the existing ones")
		}
	}
	if fn := c.FnQuiet("server.(*consumerGroup).SetCoordinator"); fn != nil {
		cf := p.Field("server", "consumerGroup", "coordinator")
		ok := false
		for _, st := range eng.FieldStores(fn, func(fa *ssa.FieldAddr) bool { return fieldIs(fa, cf) }) {
			if eng.Param("coordinator")(st.Val) {
				ok = true
			}
		}
		c.Check(ok, "a coordinator change is recorded", p.Pos(fn.Pos()), "c.coordinator = coordinator", "SetCoordinator does not record the new coordinator: assignments keep being served by the old one")
	}
	// every accepted operation advances the group epoch to the operation's epoch
	for _, k := range []string{"AddMember", "RemoveMember", "StreamDeleted", "SetCoordinator"} {
		fn := c.FnQuiet("server.(*consumerGroup)." + k)
		if fn == nil {
			continue
		}
		isEpochStore := func(in ssa.Instruction) bool {
			st, ok := in.(*ssa.Store)
			if !ok {
				return false
			}
			fa, ok := st.Addr.(*ssa.FieldAddr)
			return ok && fieldIs(fa, ge) && eng.Param("epoch")(st.Val)
		}
		var w *eng.Witness
		switch k {
		case "StreamDeleted":
			// the no-subscription early return changes nothing and may keep the epoch
			has := eng.BoolEdges(fn, commaOk(eng.Load(subsF, nil)), true)
			w = mustPass(fn, has, false, succ(1), isEpochStore)
		case "RemoveMember":
			w = mustPass(fn, nil, true, succ(2), isEpochStore)
		default:
			w = mustPass(fn, nil, true, succ(1), isEpochStore)
		}
		c.Check(w == nil, k+" advances the group epoch", p.Pos(fn.Pos()), "c.epoch = epoch before every successful return that changed the group", k+" can change the group and keep the old epoch (path "+w.String()+"): two different assignments exist for one group epoch")
	}
}

// closuresOf lists fn and the anonymous functions defined in it (transitively).
func closuresOf(fn *ssa.Function) []*ssa.Function {
	out := []*ssa.Function{fn}
	for _, a := range fn.AnonFuncs {
		out = append(out, closuresOf(a)...)
	}
	return out
}

func instrsOfAllFn(fns []*ssa.Function, f func(host *ssa.Function, in ssa.Instruction)) {
	for _, fn := range fns {
		if fn.Parent() != nil {
			continue // closures are reached through their parents by the rules that need them
		}
		host := fn
		eng.Instrs(fn, func(in ssa.Instruction) { f(host, in) })
	}
}
