package rules

import (
	"golang.org/x/tools/go/ssa"

	"lbcheck/eng"
	"lbcheck/ir"
)

// ruleReadFillsOrFails (R03.10, shared with C01 and C10): the two context readers are used like io.ReadFull — readMessage
// hands them the 28-byte header buffer and then a payload buffer and parses whatever is in the buffer when no error
// comes back. So a Read must not return with a nil error before the buffer is full. Decided as a path property: after a
// segment ReadAt, every path to the function's return crosses one of
//   - n == len(p)                                   (the buffer is full),
//   - err != io.EOF under err != nil                (a real read error is reported),
//   - an aborted wait (waitForData false / waitForHW error), which sets the error,
//   - committed reader only: no next segment (sets an error).
func ruleReadFillsOrFails(c *eng.Ctx) {
	p := c.P
	for _, key := range []string{cl + "(*uncommittedReader).Read", cl + "(*committedReader).readLoop"} {
		fn := c.Fn(key)
		if fn == nil {
			continue
		}
		reads := eng.CallsIn(fn, cl+"segment.ReadAt")
		if len(reads) == 0 {
			c.Unresolved("segment.ReadAt call in " + key)
			continue
		}
		isRead := func(x ssa.Instruction) bool {
			for _, r := range reads {
				if x == r.(ssa.Instruction) {
					return true
				}
			}
			return false
		}
		readErr := func(v ssa.Value) bool {
			// the error of ReadAt, directly or through the named result's cell
			if eng.Call(1, cl+"segment.ReadAt")(v) {
				return true
			}
			return v.Type().String() == "error" && eng.IsCellLoad(v)
		}
		full := eng.CmpEdges(fn, eng.AnyV, eng.Len(eng.Param("p")), eng.EQ)
		notNil := eng.CmpEdges(fn, readErr, eng.NilConst, eng.NE)
		var hard []eng.Edge
		for _, e := range eng.CmpEdges(fn, readErr, eng.Global("io.EOF"), eng.NE) {
			last := e.From.Instrs[len(e.From.Instrs)-1]
			if g, _ := eng.GuardedBy(fn, last, notNil); g && len(notNil) > 0 {
				hard = append(hard, e)
			}
		}
		cut := append(append([]eng.Edge{}, full...), hard...)
		cut = append(cut, eng.BoolEdges(fn, eng.Call(-1, cl+"uncommittedReader.waitForData"), false)...)
		cut = append(cut, eng.CmpEdges(fn, eng.Call(-1, cl+"committedReader.waitForHW"), eng.NilConst, eng.NE)...)
		accepted := "n == len(p), a read error other than EOF, or an aborted wait"
		if key == cl+"(*committedReader).readLoop" {
			cut = append(cut, eng.CmpEdges(fn, eng.Call(-1, cl+"findSegmentByBaseOffset"), eng.NilConst, eng.EQ)...)
			accepted += ", or no next segment"
		}
		// a failure of any other step that is handed to the caller: the true edge of `x != nil` for an error x which the
		// block it leads to stores into the function's error result
		for _, b := range fn.Blocks {
			for si := range b.Succs {
				e := eng.Edge{From: b, Succ: si}
				fact, okF := eng.FactOn(e)
				if !okF || !fact.Cmp || fact.Rel != eng.NE {
					continue
				}
				x := fact.X
				if eng.NilConst(x) {
					x = fact.Y
				} else if !eng.NilConst(fact.Y) {
					continue
				}
				if x.Type().String() != "error" {
					continue
				}
				for _, in := range e.To().Instrs {
					if st, isSt := in.(*ssa.Store); isSt && st.Val == x {
						if _, isAl := st.Addr.(*ssa.Alloc); isAl {
							cut = append(cut, e)
						}
					}
				}
				// without a result cell the error result is a phi: x flows into it from the block the edge leads to
				flows := func(from, to *ssa.BasicBlock) bool {
					for _, in := range to.Instrs {
						ph, isPhi := in.(*ssa.Phi)
						if !isPhi {
							break
						}
						for i, pe := range ph.Edges {
							if to.Preds[i] == from && pe == x && ph.Type().String() == "error" {
								return true
							}
						}
					}
					return false
				}
				if flows(e.From, e.To()) {
					cut = append(cut, e)
				}
				for _, s2 := range e.To().Succs {
					if len(e.To().Instrs) == 1 && flows(e.To(), s2) {
						cut = append(cut, e)
					}
				}
			}
		}
		var rets []ssa.Instruction
		for _, r := range eng.Returns(fn) {
			rets = append(rets, r)
		}
		from := make([]ssa.Instruction, 0, len(reads))
		for _, r := range reads {
			from = append(from, r.(ssa.Instruction))
		}
		q := &eng.PathQuery{Fn: fn, FromAfter: from, Target: func(x ssa.Instruction) bool {
			for _, r := range rets {
				if x == r {
					return true
				}
			}
			return false
		}, CutEdges: cut, CutInstr: isRead}
		w := q.Find()
		c.Check(w == nil && len(full) > 0 && len(hard) > 0, "Read fills the buffer or reports an error in "+ir.FuncKey(fn), p.Pos(fn.Pos()),
			"every path from ReadAt to the return crosses "+accepted,
			"the reader can return with a nil error and a partly filled buffer (path "+w.String()+"): readMessage parses the stale rest of the buffer as a header and hands the subscriber a message that is not in the log")
	}
}

// ruleFreshSegmentList (R01.14, shared with C03): the context readers look segments up in a list they fetched from the log in
// the same Read call (or were handed by their caller in the same call), never in one remembered from an earlier call.
// Between two calls a truncation can delete a segment and the next append re-create one with the same base offset: a
// remembered list then leads the reader onto the deleted segment.
func ruleFreshSegmentList(c *eng.Ctx) {
	p := c.P
	fresh := func(fn *ssa.Function, v ssa.Value) bool {
		ok := true
		n := 0
		sources(v, map[ssa.Value]bool{}, func(s ssa.Value) {
			n++
			switch x := s.(type) {
			case *ssa.Call:
				if eng.CalleeRef(&x.Call) != cl+"commitLog.Segments" {
					ok = false
				}
			case *ssa.Parameter:
				// handed in by the caller: checked at the call sites below
			case *ssa.Const:
				// the zero value an (inlined) helper answers next to its error: never a stale list
				if !x.IsNil() {
					ok = false
				}
				n--
			default:
				ok = false
			}
		})
		return ok && n > 0
	}
	for _, key := range []string{cl + "(*uncommittedReader).Read", cl + "(*committedReader).Read", cl + "(*committedReader).readLoop"} {
		fn := c.Fn(key)
		if fn == nil {
			continue
		}
		nLook, okAll, bad := 0, true, ""
		for _, ref := range []string{cl + "findSegmentByBaseOffset", cl + "findSegment", cl + "getHWPos", cl + "findSegmentContains"} {
			for _, call := range eng.CallsIn(fn, ref) {
				nLook++
				if !fresh(fn, call.Common().Args[0]) {
					okAll, bad = false, c.Pos(call.(ssa.Instruction))
				}
			}
		}
		// a list passed on to readLoop is fresh as well
		for _, call := range eng.CallsIn(fn, cl+"committedReader.readLoop") {
			a := call.Common().Args
			nLook++
			if !fresh(fn, a[len(a)-1]) {
				okAll, bad = false, c.Pos(call.(ssa.Instruction))
			}
		}
		c.Check(okAll && nLook > 0, "segment lookups use a list fetched in the same call in "+ir.FuncKey(fn), p.Pos(fn.Pos()), "every list handed to a segment lookup comes from r.cl.Segments() of this call", "a segment lookup at "+bad+" uses a list that was not fetched from the log in this call (a field of the reader, a cached copy): after a truncation that deleted a segment and an append that re-created one at the same base offset the reader moves onto the deleted segment and fails, instead of delivering the retained messages followed by the new ones")
	}
}
