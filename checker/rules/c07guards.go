package rules

import (
	"golang.org/x/tools/go/ssa"

	"lbcheck/eng"
	"lbcheck/ir"
)

// ruleISRChangeGuards (R07.10): what a controller refuses BEFORE an in-sync-set change or a leader change is ordered in the
// Raft log, and what it re-checks atomically with the proposal (the function handed to applyOperation runs under the Raft
// node's mutex after a barrier, so nothing can be ordered between the check and the entry).
func ruleISRChangeGuards(c *eng.Ctx) {
	p := c.P
	applyRef := "server.raftNode.applyOperation"
	leaderOf := eng.Call(0, "server.partition.GetLeader")
	epochOf := eng.Call(1, "server.partition.GetLeader")

	// (a) the stale-(leader, epoch) test is made again inside the precondition function of SHRINK_ISR / EXPAND_ISR /
	// CHANGE_LEADER: a check made only before applyOperation can go stale while another entry is in flight
	for _, k := range []struct{ fn, op string }{
		{"server.(*metadataAPI).checkShrinkISRPreconditions", "SHRINK_ISR"},
		{"server.(*metadataAPI).checkExpandISRPreconditions", "EXPAND_ISR"},
		{"server.(*metadataAPI).checkChangeLeaderPreconditions", "CHANGE_LEADER"},
	} {
		fn := c.Fn(k.fn)
		if fn == nil {
			continue
		}
		ok, where := false, ""
		for _, f := range moduleReach(c, fn, 3) {
			sameLeader := eng.CmpEdges(f, eng.AnyV, leaderOf, eng.EQ)
			sameEpoch := eng.CmpEdges(f, eng.AnyV, epochOf, eng.EQ)
			if len(sameLeader) == 0 || len(sameEpoch) == 0 {
				continue
			}
			// the success return of that function needs both
			good := true
			n := 0
			for _, r := range eng.Returns(f) {
				rv := eng.RetVals(r)
				if len(rv) == 1 && eng.NilConst(rv[0]) {
					n++
					g1, _ := eng.GuardedBy(f, r, sameLeader)
					g2, _ := eng.GuardedBy(f, r, sameEpoch)
					if !g1 || !g2 {
						good = false
					}
				}
			}
			if good && n > 0 {
				ok, where = true, ir.FuncKey(f)
			}
		}
		c.Check(ok, k.op+" is proposed only for the current (leader, epoch), checked with the proposal", p.Pos(fn.Pos()), "the precondition function compares leader and leader epoch with the partition's current ones ("+where+")", "the function applyOperation runs under the Raft mutex for "+k.op+" only checks that the partition exists: a request that passed the (leader, epoch) test before a leader change was ordered is applied after it — a deposed leader's shrink removes the new leader from the in-sync set, or a leader is installed that was shrunk out meanwhile")
	}

	// (b) a leader change is proposed only for a candidate that is in the in-sync set when the entry is ordered
	if fn := c.Fn("server.(*metadataAPI).checkChangeLeaderPreconditions"); fn != nil {
		ok := false
		for _, f := range moduleReach(c, fn, 2) {
			inISR := eng.BoolEdges(f, func(v ssa.Value) bool {
				call, isCall := v.(*ssa.Call)
				if !isCall || eng.CalleeRef(&call.Call) != "server.partition.inISR" {
					return false
				}
				a := call.Call.Args
				return eng.LoadNamed("Leader", eng.LoadNamed("ChangeLeaderOp", nil))(a[len(a)-1])
			}, true)
			if len(inISR) == 0 {
				continue
			}
			for _, r := range eng.Returns(f) {
				rv := eng.RetVals(r)
				if len(rv) == 1 && eng.NilConst(rv[0]) {
					if g, _ := eng.GuardedBy(f, r, inISR); g {
						ok = true
					}
				}
			}
		}
		c.Check(ok, "the new leader is in the in-sync set when the change is ordered", p.Pos(fn.Pos()), "CHANGE_LEADER precondition: inISR(op.Leader)", "the candidate is picked from a copy of the in-sync set and not looked at again when the entry is ordered: a shrink of the candidate applied in between yields a leader outside the in-sync set")
	}

	// (c) ShrinkISR / ExpandISR refuse what cannot (or must not) be applied, before anything is logged
	type guard struct {
		fn, what, field, bad string
		edges                func(f *ssa.Function) []eng.Edge
	}
	replicaArg := func(field string) eng.VM {
		return func(v ssa.Value) bool { return eng.LoadNamed(field, eng.Param("req"))(v) }
	}
	isReplicaEdges := func(field string) func(f *ssa.Function) []eng.Edge {
		return func(f *ssa.Function) []eng.Edge {
			return eng.BoolEdges(f, func(v ssa.Value) bool {
				call, isCall := v.(*ssa.Call)
				if !isCall || eng.CalleeRef(&call.Call) != "server.partition.inReplicas" {
					return false
				}
				a := call.Call.Args
				return replicaArg(field)(a[len(a)-1])
			}, true)
		}
	}
	for _, g := range []guard{
		{"server.(*metadataAPI).ShrinkISR", "the leader is never shrunk out of the in-sync set", "ReplicaToRemove", "ShrinkISR accepts the leader itself as the replica to remove: a well-formed request of the current epoch leaves a leader that is not in the in-sync set",
			func(f *ssa.Function) []eng.Edge {
				return eng.CmpEdges(f, replicaArg("ReplicaToRemove"), leaderOf, eng.NE)
			}},
		{"server.(*metadataAPI).ShrinkISR", "only a replica can be shrunk out", "ReplicaToRemove", "ShrinkISR logs an entry naming a broker that is not a replica: applying it fails on every server, and Server.Apply panics on a failed entry — again on every restart that replays it",
			isReplicaEdges("ReplicaToRemove")},
		{"server.(*metadataAPI).ExpandISR", "only a replica can join the in-sync set", "ReplicaToAdd", "ExpandISR logs an entry naming a broker that is not a replica: applying it fails on every server, and Server.Apply panics on a failed entry — again on every restart that replays it",
			isReplicaEdges("ReplicaToAdd")},
	} {
		fn := c.Fn(g.fn)
		if fn == nil {
			continue
		}
		ap := eng.CallsIn(fn, applyRef)
		if len(ap) != 1 {
			c.Unresolved("applyOperation call in " + g.fn)
			continue
		}
		es := g.edges(fn)
		gd, w := eng.GuardedBy(fn, ap[0].(ssa.Instruction), es)
		c.Check(gd && len(es) > 0, g.what, c.Pos(ap[0].(ssa.Instruction)), "applyOperation is reached only over the test of req."+g.field, g.bad+" (path "+w.String()+")")
	}
}

// ruleWitnessesAreCurrent (R07.3 extended): the witnesses compared with the quorum are, at that moment, in-sync followers that
// reported the CURRENT leader epoch. The quorum is computed from the current in-sync set; witnesses collected earlier may have
// left it, or may have reported the leader that has since been replaced (their report arrived while the change was in flight).
func ruleWitnessesAreCurrent(c *eng.Ctx) {
	p := c.P
	fn := c.Fn("server.(*failoverStatus).report")
	if fn == nil {
		return
	}
	wf := p.Field("server", "failoverStatus", "witnesses")
	// stale witnesses are forgotten: a delete from the witness table on the false edge of the failover's own membership test
	isW := func(v ssa.Value) bool {
		call, isCall := v.(*ssa.Call)
		if !isCall || !call.Call.IsInvoke() || call.Call.Method.Name() != "IsWitness" || len(call.Call.Args) < 1 {
			return false
		}
		// the test is made of the witness the loop is looking at (the range key), not only of the one reporting now
		ex, isEx := eng.Strip(call.Call.Args[0]).(*ssa.Extract)
		if !isEx {
			return false
		}
		_, isNext := ex.Tuple.(*ssa.Next)
		return isNext
	}
	notW := eng.BoolEdges(fn, isW, false)
	var dels []ssa.Instruction
	eng.Instrs(fn, func(in ssa.Instruction) {
		call, isCall := in.(*ssa.Call)
		if !isCall {
			return
		}
		if b, isB := call.Call.Value.(*ssa.Builtin); isB && b.Name() == "delete" && eng.Load(wf, nil)(call.Call.Args[0]) {
			dels = append(dels, in)
		}
	})
	// every witness that fails the test is deleted: from the failed test no path reaches the next iteration (or the count)
	// without passing a delete. Other reasons to forget a witness (the age of its report) may share the delete.
	isDel := func(x ssa.Instruction) bool {
		for _, d := range dels {
			if d == x {
				return true
			}
		}
		return false
	}
	if len(notW) == 0 {
		dels = nil
	} else if len(dels) > 0 {
		q := &eng.PathQuery{Fn: fn, FromEdges: notW, CutInstr: isDel, Target: func(x ssa.Instruction) bool {
			switch x.(type) {
			case *ssa.Next, *ssa.Return:
				return true
			}
			return false
		}}
		if q.Find() != nil {
			dels = nil
		}
	}
	// ... before the table is counted against the quorum
	okOrder := len(dels) > 0
	if okOrder {
		eng.Instrs(fn, func(in ssa.Instruction) {
			bo, isBo := in.(*ssa.BinOp)
			if !isBo || !(eng.Len(eng.Load(wf, nil))(bo.X) || eng.Len(eng.Load(wf, nil))(bo.Y)) {
				return
			}
			// the len() operand is evaluated after the pruning loop: no path from the count back into a delete
			q := &eng.PathQuery{Fn: fn, FromAfter: []ssa.Instruction{in}, Target: isDel}
			if q.Find() != nil {
				okOrder = false
			}
		})
	}
	c.Check(okOrder, "witnesses that no longer count are forgotten before the quorum test", p.Pos(fn.Pos()), "delete(f.witnesses, w) on !IsWitness(…), then len(f.witnesses) > quorum", "report() compares every witness ever collected in the window with a quorum computed from the CURRENT in-sync set: a witness that was shrunk out, or that reported the previous leader while the leader change was in flight, still counts — one in-sync follower's report can depose a leader")
	// the partition's membership test: an in-sync follower that reported the current epoch
	if iw := c.Fn("server.(*partitionFailover).IsWitness"); iw != nil {
		specs := []eng.AtomSpec{
			{A: eng.Param("epoch"), B: epochOf2(), Rel: eng.EQ},
			{A: eng.Param("witness"), B: eng.Call(0, "server.partition.GetLeader"), Rel: eng.NE},
			{A: eng.Call(-1, "server.partition.inISR")},
		}
		ok := false
		for _, r := range eng.Returns(iw) {
			rv := eng.RetVals(r)
			if len(rv) != 1 {
				continue
			}
			t, okT := eng.ValueTable(iw, rv[0], r.Block(), specs)
			ok = okT && eng.TableIs(t, func(bit func(int) bool) bool { return bit(0) && bit(1) && bit(2) })
		}
		c.Check(ok, "a partition's witness is an in-sync follower that reported the current epoch", p.Pos(iw.Pos()), "epoch == current leader epoch ∧ witness != leader ∧ inISR(witness)", "partitionFailover.IsWitness does not require all of: the reported epoch is the current one, the witness is not the leader, the witness is in the in-sync set")
	} else {
		c.Violate("a partition's witness is an in-sync follower that reported the current epoch", p.Pos(fn.Pos()), "there is no membership test for partition witnesses: the witness set is never intersected with the in-sync set nor tied to the leader epoch")
	}
}

func epochOf2() eng.VM { return eng.Call(1, "server.partition.GetLeader") }
