package rules

import (
	"go/token"
	"strings"

	"golang.org/x/tools/go/ssa"

	"lbcheck/eng"
	"lbcheck/ir"
)

// Rules that accompany the repairs F94–F102 (defects in the unchanged code found by the round-5 agents).

// rulePublishWaitsWhereTheAckDecides (R16.5 extension, F94): on a stream with optimistic concurrency control the publisher
// learns only from the ack whether its message was stored. A synchronous Publish without a deadline used to fire and forget
// and answer an empty success. publishToStream tells publish whether the partition's log has concurrency control.
func rulePublishWaitsWhereTheAckDecides(c *eng.Ctx) {
	fn := c.Fn("server.(*apiServer).publishToStream")
	if fn == nil {
		return
	}
	pubs := eng.CallsIn(fn, "server.apiServer.publish")
	if len(pubs) == 0 {
		c.Unresolved("the publish call of publishToStream")
		return
	}
	for _, pc := range pubs {
		ok := false
		for _, a := range eng.AllArgs(pc.Common()) {
			if flowsFromCall(a, "server/commitlog.CommitLog.IsConcurrencyControlEnabled", 0, map[ssa.Value]bool{}) {
				ok = true
			}
		}
		c.Check(ok, "a publish to a stream with concurrency control waits for its ack", c.Pos(pc.(ssa.Instruction)), "a.publish(…, waitForAck = partition.log.IsConcurrencyControlEnabled(), …)", "publishToStream does not tell publish whether the partition has optimistic concurrency control: a Publish without a deadline fires and forgets, and the caller gets an empty success although the leader rejected the message for an incorrect expected offset")
	}
	if pf := c.Fn("server.(*apiServer).publish"); pf != nil {
		// the empty success is answered only where the policy is NONE or the caller does not have to wait — whichever way
		// the condition is written (one expression, nested ifs, a flag computed first)
		free := eng.EdgesWhere(pf, func(av eng.AtomView) bool {
			if av.RelHolds(eng.Param("ackPolicy"), func(v ssa.Value) bool {
				k, ok := eng.Strip(v).(*ssa.Const)
				return ok && eng.EnumName(k) == "AckPolicy_NONE"
			}, eng.EQ) {
				return true
			}
			return !av.Cmp && av.Val != nil && eng.Param("waitForAck")(av.Val) && !av.Pol
		})
		n := 0
		for _, r := range eng.Returns(pf) {
			rv := eng.RetVals(r)
			if len(rv) != 2 || !eng.NilConst(rv[0]) || !eng.NilConst(rv[1]) {
				continue
			}
			n++
			g, w := eng.GuardedBy(pf, r, free)
			c.Check(g && len(free) > 0, "publish fires and forgets only when nobody has to wait", c.Pos(r), "ackPolicy == NONE || !(hasDeadline || waitForAck)", "apiServer.publish answers (nil, nil) although the caller has to wait for the ack ("+w.String()+")")
		}
		if n == 0 {
			c.Unresolved("the fire-and-forget return of apiServer.publish")
		}
	}
}

// ruleClientStopOffsetIsNeverTheSentinel (R10.3 extension, F95): -1 is the internal "no stop offset"; a client's STOP_OFFSET
// of -1 is told from it by the request's stop position and refused like every other stop offset below the start.
func ruleClientStopOffsetIsNeverTheSentinel(c *eng.Ctx) {
	fn := c.Fn("server.(*partition).Subscribe")
	if fn == nil {
		return
	}
	asked := eng.EdgesWhere(fn, func(av eng.AtomView) bool {
		return av.RelHolds(eng.LoadNamed("StopPosition", nil), func(v ssa.Value) bool {
			k, ok := eng.Strip(v).(*ssa.Const)
			return ok && eng.EnumName(k) == "StopPosition_STOP_OFFSET"
		}, eng.EQ)
	})
	c.Check(len(asked) > 0, "a stop offset the client asked for is range-checked whatever its value", c.P.Pos(fn.Pos()), "(stopOffset != waitForNewMessages || req.StopPosition == STOP_OFFSET) && !req.Reverse && stopOffset < startOffset ⇒ InvalidArgument", "partition.Subscribe tells a requested stop offset from the internal 'no stop offset' (-1) by value only: a forward STOP_OFFSET of -1 is accepted, delivers everything and waits for ever, while -2, 0 and 1 are refused")
}

// ruleTimestampPositionsFollowTheDirection (R10.8 extension, F96): a timestamp between two messages rounds INTO the range: the
// start of a forward subscription to the earliest message at or after it, of a reverse one to the newest at or before it; the
// stop the other way round. Both resolvers look at req.Reverse in their timestamp case.
func ruleTimestampPositionsFollowTheDirection(c *eng.Ctx) {
	for _, k := range []struct{ fn, tag, what string }{
		{"server.(*partition).getStartOffset", "StartTimestamp", "start"},
		{"server.(*partition).getStopOffset", "StopTimestamp", "stop"},
	} {
		fn := c.Fn(k.fn)
		if fn == nil {
			continue
		}
		rev := eng.BoolEdges(fn, eng.LoadNamed("Reverse", nil), true)
		fwd := eng.BoolEdges(fn, eng.LoadNamed("Reverse", nil), false)
		lookups := eng.CallsIn(fn, cl+"CommitLog.EarliestOffsetAfterTimestamp", cl+"CommitLog.LatestOffsetBeforeTimestamp", "server.partition.getReverseStartOffset")
		n, ok := 0, len(rev) > 0 && len(fwd) > 0
		for _, l := range lookups {
			n++
			g1, _ := eng.GuardedBy(fn, l.(ssa.Instruction), rev)
			g2, _ := eng.GuardedBy(fn, l.(ssa.Instruction), fwd)
			if !g1 && !g2 {
				ok = false
			}
		}
		c.Check(ok && n >= 2, "the timestamp "+k.what+" position is resolved for the direction of the subscription", c.P.Pos(fn.Pos()), "separate lookups for req.Reverse and forward", k.fn[strings.LastIndex(k.fn, ".")+1:]+" resolves req."+k.tag+" without looking at req.Reverse: for a reverse subscription a timestamp between two messages rounds out of the requested range — the first message delivered is newer than the start time, the last one older than the stop time")
	}
}

// ruleNegativeSettingsTakeTheDefault (R08.x, F97 / F102): a worker count or an interval that is not positive takes the
// default; a negative value from a stream's stored configuration would panic the cleaner (make(chan, -1), NewTicker(-1)).
func ruleNegativeSettingsTakeTheDefault(c *eng.Ctx) {
	for _, k := range []struct{ fn, field, what string }{
		{cl + "newCompactCleaner", "MaxGoroutines", "the number of compaction goroutines"},
		{cl + "New", "CleanerInterval", "the cleaner interval"},
	} {
		fn := c.Fn(k.fn)
		if fn == nil {
			continue
		}
		f := eng.LoadNamed(k.field, nil)
		nonPos := (len(eng.CmpEdges(fn, f, eng.IntConst(0), eng.LE)) > 0 && eng.ExactCmp(fn, f, eng.IntConst(0), eng.LE)) ||
			(len(eng.CmpEdges(fn, f, eng.IntConst(1), eng.LT)) > 0 && eng.ExactCmp(fn, f, eng.IntConst(1), eng.LT))
		c.Check(nonPos, k.what+" defaults for every non-positive value", c.P.Pos(fn.Pos()), "if opts."+k.field+" <= 0 { default }", "only the value 0 of "+k.field+" takes the default: a negative value, which a stream's stored configuration can carry, reaches make(chan …, n) / time.NewTicker and panics the cleaner goroutine — the broker dies at the first cleaner tick and again after every restart")
	}
}

// ruleReplacedWatermarkSegmentReinitialises (R03.4 extension, F98): the committed reader recognises the segment that holds
// the watermark by identity; when a truncation replaced that segment the reader, still in an earlier segment, would enter the
// new object unrecognised and read past the watermark. A positioned reader whose watermark segment was replaced asks to be
// re-initialised before it reads.
func ruleReplacedWatermarkSegmentReinitialises(c *eng.Ctx) {
	fn := c.Fn(cl + "(*committedReader).Read")
	if fn == nil {
		return
	}
	loops := eng.CallsIn(fn, cl+"committedReader.readLoop")
	if len(loops) == 0 {
		c.Unresolved("the readLoop call of committedReader.Read")
		return
	}
	hwSeg := eng.LoadNamed("hwSeg", nil)
	fresh := eng.BoolEdges(fn, func(v ssa.Value) bool {
		call := eng.AsCall(v)
		return call != nil && eng.CalleeRef(&call.Call) == cl+"segment.IsReplaced" && len(call.Call.Args) > 0 && hwSeg(call.Call.Args[0])
	}, false)
	none := eng.CmpEdges(fn, hwSeg, eng.NilConst, eng.EQ)
	parked := eng.CmpEdges(fn, eng.LoadNamed("seg", nil), eng.NilConst, eng.EQ)
	cut := append(append(append([]eng.Edge{}, fresh...), none...), parked...)
	for _, l := range loops {
		l := l
		q := &eng.PathQuery{Fn: fn, FromEntry: true, Target: func(x ssa.Instruction) bool { return x == l.(ssa.Instruction) }, CutEdges: cut}
		w := q.Find()
		c.Check(w == nil && len(fresh) > 0, "a reader whose watermark segment was replaced re-initialises before it reads", c.Pos(l.(ssa.Instruction)), "readLoop only after r.seg == nil (just positioned), r.hwSeg == nil or !r.hwSeg.IsReplaced()", "committedReader.Read enters readLoop without having looked at whether its cached watermark segment was replaced ("+w.String()+"): after a truncation rewrote that segment, a reader still in an earlier segment does not recognise the new object, reads past the high watermark and delivers an uncommitted message that is later replaced")
	}
}

// ruleProgressIsWithinTheLeadersLog (R04.5 extension, F99): a replica can only hold what the leader wrote; an offset past the
// leader's own log end (the leader lost an unflushed tail and continues its epoch) is not progress and not "caught up".
func ruleProgressIsWithinTheLeadersLog(c *eng.Ctx) {
	fn := c.Fn("server.(*replicator).start")
	if fn == nil {
		return
	}
	within := eng.CmpEdges(fn, eng.LoadNamed("Offset", nil), eng.Call(-1, cl+"CommitLog.NewestOffset"), eng.LE)
	n := 0
	for _, u := range eng.CallsIn(fn, "server.partition.updateISRLatestOffset", "server.replicator.caughtUp") {
		n++
		g, w := eng.GuardedBy(fn, u.(ssa.Instruction), within)
		c.Check(g && len(within) > 0, "a replica's offset counts only up to the leader's own log end: "+shortRef(eng.CalleeRef(u.Common())), c.Pos(u.(ssa.Instruction)), "behind req.Offset <= log.NewestOffset()", "replicator.start records / honours a fetch offset without comparing it with the leader's log end ("+w.String()+"): after the leader lost an unflushed tail and continued its epoch, the follower's report above the leader's log end is taken as progress — messages the leader then writes at the lost offsets are committed and acknowledged under ALL although the follower was never sent them")
	}
	if n == 0 {
		c.Unresolved("updateISRLatestOffset / caughtUp in replicator.start")
	}
}

// ruleCursorsAreNotSubjectToRetention (R11.9, F100): the cursors stream is bounded by compaction only. The retention limits
// delete whole segments, including the one that holds the latest value of a cursor nobody updated recently; the reserved
// stream's overrides switch them off.
func ruleCursorsAreNotSubjectToRetention(c *eng.Ctx) {
	fn := c.Fn("server.applyReservedStreamOverrides")
	if fn == nil {
		return
	}
	for _, f := range []string{"RetentionMaxAge", "RetentionMaxBytes", "RetentionMaxMessages"} {
		ok := false
		for _, st := range eng.FieldStores(fn, func(fa *ssa.FieldAddr) bool { return eng.FieldNameOf(fa) == f }) {
			// the stored NullableInt64 carries the constant 0 (or nothing is stored into Value: the zero value)
			if al, isAl := eng.Strip(st.Val).(*ssa.Alloc); isAl {
				zero := true
				if refs := al.Referrers(); refs != nil {
					for _, r := range *refs {
						if fa, isFA := r.(*ssa.FieldAddr); isFA && eng.FieldNameOf(fa) == "Value" {
							for _, rr := range *fa.Referrers() {
								if s2, isSt := rr.(*ssa.Store); isSt && !eng.IntConst(0)(s2.Val) {
									zero = false
								}
							}
						}
					}
				}
				ok = zero
			}
		}
		c.Check(ok, "the cursors stream has no "+f, c.P.Pos(fn.Pos()), "s.config."+f+" = &NullableInt64{Value: 0} for the cursors stream", "applyReservedStreamOverrides leaves "+f+" of the cursors stream to the server-wide streams.retention.* defaults: the delete cleaner removes the segment that holds the only value of an idle cursor, and FetchCursor answers -1 once the cache entry is gone")
	}
}

// ruleReadonlyVerdictIsRechecked (R03.7 extension, F101): the read-only signal a parked reader receives says what held when it
// was sent. The reader ends only if the log is still read-only, the watermark is the one it waited at and has reached the log
// end — otherwise it syncs and waits again.
func ruleReadonlyVerdictIsRechecked(c *eng.Ctx) {
	fn := c.Fn(cl + "(*committedReader).waitForHW")
	if fn == nil {
		return
	}
	still := eng.BoolEdges(fn, eng.Call(-1, cl+"commitLog.isReadonlyEnd"), true)
	n := 0
	for _, r := range eng.Returns(fn) {
		if !eng.Global(cl + "ErrCommitLogReadonly")(eng.RetVals(r)[0]) {
			continue
		}
		n++
		g, w := eng.GuardedBy(fn, r, still)
		c.Check(g && len(still) > 0, "the end of a read-only log is announced only if it still holds", c.Pos(r), "readonly && r.cl.isReadonlyEnd(hw)", "committedReader.waitForHW turns a queued read-only signal into ErrCommitLogReadonly without re-checking it ("+w.String()+"): after readonly, writable, append, watermark advance, readonly again the reader ends with a committed message undelivered")
	}
	if n == 0 {
		c.Unresolved("the ErrCommitLogReadonly return of committedReader.waitForHW")
	}
	if ie := c.FnQuiet(cl + "(*commitLog).isReadonlyEnd"); ie != nil {
		hw := eng.LoadNamed("hw", nil)
		ok := eng.CmpExists(ie, hw, eng.Param("hw")) && eng.CmpExists(ie, hw, eng.Call(-1, cl+"commitLog.NewestOffset")) && len(eng.CallsIn(ie, cl+"commitLog.IsReadonly")) > 0
		c.Check(ok, "isReadonlyEnd compares the watermark with the reader's and with the log end", c.P.Pos(ie.Pos()), "l.hw == hw && l.hw >= l.NewestOffset() && l.IsReadonly()", "isReadonlyEnd no longer tests all three conditions under which notifyReadonly sends the signal")
	}
	_ = token.ADD
}

// ruleCreateIsStartable (R14.5 extension, F102): a CREATE_STREAM that is proposed can be started by the partition leader: the
// stream name and every partition subject are valid NATS subjects, the queue group has no white space. A request arriving on
// the propagate inbox skips the API's checks; what nats.go or the file system would refuse at apply time panics the FSM on
// every server and after every restart.
func ruleCreateIsStartable(c *eng.Ctx) {
	fn := c.Fn("server.(*metadataAPI).CreateStream")
	if fn == nil {
		return
	}
	props := eng.CallsIn(fn, "server.raftNode.applyOperation", "server.Server.applyOperation", "server.metadataAPI.applyOperation")
	if len(props) == 0 {
		props = eng.CallsIn(fn, "server.(*raftNode).applyOperation")
	}
	valid := eng.BoolEdges(fn, eng.Call(-1, "server.isValidSubject"), true)
	clean := eng.BoolEdges(fn, eng.Call(-1, "strings.ContainsAny", "strings.ContainsRune", "strings.Contains"), false)
	nValid := len(eng.CallsIn(fn, "server.isValidSubject"))
	c.Check(nValid >= 2 && len(valid) > 0 && len(clean) > 0, "the stream name, every partition subject and the queue group are checked before the proposal", c.P.Pos(fn.Pos()), "isValidSubject(name), isValidSubject(partition.Subject), no white space in partition.Group ⇒ else InvalidArgument", "metadataAPI.CreateStream proposes a stream without checking that its name, subjects and queue group are something the partition leader can subscribe with: a request on the propagate inbox (or gRPC with a queue group containing a space) is committed, fails to apply and panics the FSM on every server, again on every restart")
	_ = props
}

// ruleRejoiningReplicaHoldsEverythingCommitted (R02.7 extension, F103): having been caught up less than the lag time ago is a
// timestamp of a past fetch; while the replica was outside the in-sync set the leader committed and acknowledged alone. The
// expansion is proposed only for a replica whose last reported offset has reached the high watermark.
func ruleRejoiningReplicaHoldsEverythingCommitted(c *eng.Ctx) {
	fn := c.Fn("server.(*replicator).tick")
	if fn == nil {
		return
	}
	exps := eng.CallsIn(fn, "server.replicator.expandISR")
	if len(exps) == 0 {
		c.Unresolved("the expandISR call of replicator.tick")
		return
	}
	has := eng.CmpEdges(fn, eng.LoadNamed("lastOffset", nil), eng.Call(-1, cl+"CommitLog.HighWatermark"), eng.GE)
	for _, e := range exps {
		g, w := eng.GuardedBy(fn, e.(ssa.Instruction), has)
		c.Check(g && len(has) > 0, "a replica re-enters the in-sync set only when it holds everything committed", c.Pos(e.(ssa.Instruction)), "expandISR() behind lastOffset >= log.HighWatermark()", "replicator.tick proposes to re-admit a replica without comparing its last reported offset with the high watermark ("+w.String()+"): what the leader committed alone while the replica was out is missing on it, it becomes electable, and after a fail-over an acknowledged message is gone")
	}
}

// ruleCompactedSegmentsArePublishedAsTheyAreReplaced (R08.9, known finding K17): segment.Replace closes the old segment object
// at once; the log's list still names it until the whole pass is over. A reader that positions or re-positions itself in that
// window finds the closed object ("segment has been closed"): new subscriptions are refused and running ones end, for as long
// as the pass runs — with compaction every non-active segment is rewritten. The repair publishes each replaced segment to the
// list as soon as it is done; the rule asks that something reachable from the compaction pass writes commitLog.segments.
func ruleCompactedSegmentsArePublishedAsTheyAreReplaced(c *eng.Ctx) {
	p := c.P
	pass := c.Fn(cl + "(*compactCleaner).compact")
	if pass == nil {
		return
	}
	segF := p.Field(clPkg, "commitLog", "segments")
	reach := c.Reachable([]*ssa.Function{pass}, nil, false)
	publishes := false
	for _, a := range eng.StoresToField(p, segF, false) {
		if reach[a.Fn] {
			publishes = true
		}
	}
	// ... or hands each replaced segment to a hook it was given (a function-typed field or parameter called with segments)
	for f := range reach {
		eng.Instrs(f, func(in ssa.Instruction) {
			call, isCall := in.(*ssa.Call)
			if !isCall || call.Call.IsInvoke() || call.Call.StaticCallee() != nil {
				return
			}
			if _, isB := call.Call.Value.(*ssa.Builtin); isB {
				return
			}
			for _, a := range call.Call.Args {
				if strings.HasSuffix(a.Type().String(), "commitlog.segment") {
					publishes = true
				}
			}
		})
	}
	c.Check(publishes, "segments replaced by a compaction pass are swapped into the log's list as they are replaced", p.Pos(pass.Pos()), "the pass (or a callback it is given) updates commitLog.segments per replaced segment", "compactCleaner.compact replaces segments one by one — each Replace closes the old object — and nothing it reaches updates commitLog.segments: the list is swapped by Clean only when the whole pass is over")
}

// ruleListIsFetchedAfterTheWait (R01.14 extension): a parked committed reader looks its segments up in a list fetched AFTER
// the wait — segments roll while it is parked, and the list fetched at the top of the call no longer holds them.
func ruleListIsFetchedAfterTheWait(c *eng.Ctx) {
	nWaits := 0
	for _, name := range []string{"(*committedReader).Read", "(*committedReader).readLoop"} {
		fn := c.FnQuiet(cl + name)
		if fn == nil {
			continue
		}
		var waits []ssa.Instruction
		for _, w := range eng.CallsIn(fn, cl+"committedReader.waitForHW") {
			waits = append(waits, w.(ssa.Instruction))
		}
		if len(waits) == 0 {
			continue
		}
		nWaits += len(waits)
		lookup := eng.IsCallTo(cl+"getHWPos", cl+"findSegment", cl+"findSegmentContains", cl+"findSegmentByBaseOffset")
		q := &eng.PathQuery{Fn: fn, FromAfter: waits, Target: lookup, CutInstr: eng.IsCallTo(cl + "commitLog.Segments")}
		w := q.Find()
		c.Check(w == nil, "after a wait the segment list is fetched again before it is searched"+map[bool]string{true: "", false: " (" + fn.Name() + ")"}[name == "(*committedReader).Read"], c.Pos(waits[0]), "every path from waitForHW to getHWPos / findSegment passes r.cl.Segments()", "committedReader."+fn.Name()+" searches, after waiting for the watermark, the segment list it fetched before the wait ("+w.String()+"): segments rolled while the reader was parked are not in it — the reader pins itself to the end of the old segment and stalls, or fails with ErrSegmentNotFound")
		// ... and the list that IS searched is one fetched after the wait: a fresh list that goes into another variable (a
		// helper's local) does not help the lookup that still uses the old one
		eng.Instrs(fn, func(in ssa.Instruction) {
			if !lookup(in) {
				return
			}
			args := eng.AllArgs(in.(ssa.CallInstruction).Common())
			var list ssa.Value
			for _, a := range args {
				if strings.HasSuffix(a.Type().String(), "[]*"+ir.ModulePath+"/server/commitlog.segment") {
					list = a
				}
			}
			if list == nil {
				return
			}
			fresh := map[ssa.Instruction]bool{}
			for _, src := range phiSources(list) {
				if call := eng.AsCall(src); call != nil && eng.CalleeRef(&call.Call) == cl+"commitLog.Segments" {
					fresh[call] = true
				}
			}
			q2 := &eng.PathQuery{Fn: fn, FromAfter: waits, Target: func(x ssa.Instruction) bool { return x == in }, CutInstr: func(x ssa.Instruction) bool { return fresh[x] }}
			if w2 := q2.Find(); w2 != nil {
				c.Violate("the list searched after a wait is the one fetched after it ("+fn.Name()+")", c.Pos(in), "committedReader."+fn.Name()+" hands "+eng.CalleeRef(in.(ssa.CallInstruction).Common())+" a segment list that can be the one fetched before the reader parked ("+w2.String()+"; the list fetched after the wait goes into another variable): a segment rolled while the reader waited is not found, and a caught-up subscription ends with `no segment to consume` instead of delivering the next message")
			}
		})
	}
	if nWaits == 0 {
		c.Unresolved("the waitForHW calls of committedReader.Read / readLoop")
	}
}

// ruleTelemetrySectionIsTakenKeyByKey (R19.5 extension): the configuration reader stores what the file says for each key it
// finds; it never replaces the telemetry section as a whole (the defaults have the switch on), and the switch is stored from
// the file's value only.
func ruleTelemetrySectionIsTakenKeyByKey(c *eng.Ctx) {
	fn := c.Fn("server.parseTelemetryConfig")
	if fn == nil {
		return
	}
	ok, why := true, ""
	n := 0
	eng.Instrs(fn, func(in ssa.Instruction) {
		st, isSt := in.(*ssa.Store)
		if !isSt {
			return
		}
		fa, isFA := st.Addr.(*ssa.FieldAddr)
		if !isFA {
			return
		}
		switch eng.FieldNameOf(fa) {
		case "Telemetry":
			ok, why = false, "replaces config.Telemetry as a whole"
		case "Enabled":
			n++
			if !eng.Call(-1, "github.com/spf13/viper.Viper.GetBool")(st.Val) {
				ok, why = false, "stores something other than the file's value into Telemetry.Enabled"
			}
		}
	})
	if n == 0 && ok {
		c.Unresolved("the store of Telemetry.Enabled in parseTelemetryConfig")
		return
	}
	c.Check(ok, "the telemetry section is read key by key", c.P.Pos(fn.Pos()), "config.Telemetry.Enabled = v.GetBool(telemetry.enabled) and nothing else writes the switch", "parseTelemetryConfig "+why+": an explicit telemetry.enabled: false is replaced by the default (on) for some other content of the section — the opt-out is silently ignored")
}

// ruleNoEntryAtOrBelowIsMinusOne (R01.8 extension): findLastEntryIndex answers the index position of the last entry at or below
// the offset, and -1 — not an error — when the segment has none: its caller, the reverse scanner, starts "before the first
// entry" on -1 and reports the end of the segment; an error would end the subscription.
func ruleNoEntryAtOrBelowIsMinusOne(c *eng.Ctx) {
	fn := c.Fn(cl + "(*segment).findLastEntryIndex")
	if fn == nil {
		return
	}
	search := eng.Call(-1, "sort.Search")
	ok, n, why := true, 0, ""
	for _, r := range eng.Returns(fn) {
		rv := eng.RetVals(r)
		if len(rv) != 2 {
			continue
		}
		if eng.NilConst(rv[1]) {
			n++
			v := eng.Strip(rv[0])
			if cv, isConv := v.(*ssa.Convert); isConv {
				v = eng.Strip(cv.X)
			}
			bo, isBo := v.(*ssa.BinOp)
			if !isBo || bo.Op != token.SUB || !eng.IntConst(1)(bo.Y) || !(search(eng.Strip(bo.X)) || func() bool {
				cv, isConv := eng.Strip(bo.X).(*ssa.Convert)
				return isConv && search(eng.Strip(cv.X))
			}()) {
				ok, why = false, "a successful return is not (search position - 1)"
			}
			continue
		}
		if u, isU := eng.Strip(rv[1]).(*ssa.UnOp); isU {
			if _, isG := u.X.(*ssa.Global); isG {
				ok, why = false, "a package sentinel error is returned where the answer is -1"
			}
		}
	}
	c.Check(ok && n > 0, "no entry at or below the offset is answered with -1", c.P.Pos(fn.Pos()), "return int64(idx) - 1, nil for every search position, 0 included", "findLastEntryIndex: "+why+": a reverse reader that starts in a gap in front of a segment's first surviving message fails with an error instead of going on to the older segments")
}
