package rules

import (
	"go/token"
	"strings"

	"golang.org/x/tools/go/ssa"

	"lbcheck/eng"
)

func init() {
	register(&Property{ID: "C08", Level: "other", Run: runC08,
		Technique:   "static analysis: guard dominance on the retention predicate, value identity of the rewritten bytes, slice-shape and lock-held checks, shared unit-discipline slice (go/ssa)",
		LevelText:   "Structural clauses decided for all paths: a message is dropped only when it has a key, is not the latest offset for that key and is below the high watermark; the newest segment is never rewritten; the bytes written to the cleaned segment are the scanned message set, untouched; the per-key maximum only grows; readers re-initialise on a replaced segment; the segment list and the epoch cache are swapped in one critical section; index slots are never derived from offsets (the reverse-scanner rule). That the survivor set equals the specification for every key pattern and layout is not decided.",
		LevelNote:   "Trusted: go/ssa; sync.Map semantics; nil-versus-empty key conflation in scanKeys is noted, not armed.",
		DesignRef:   "DESIGN.md §4 C08",
		Explanation: "R08.1 also (round 8): every keyed message is kept or dropped after a lookup of its own key. R01.8 (shared) findLastEntryIndex answers -1, not an error. R08.1 also: the key scan is handed every segment; worker count and cleaner interval default for every non-positive value (F97, F102); R08.9 replaced segments are published to the log's list as they are replaced (known finding K17). R08.1 also: only messages with a key enter the compactor's key table (F91). R08.6 also covers reverse scans into segments deleted by retention (F76); R01.6 (shared) search predicates; R05.8 (shared) index rebuild accepts gaps. R08.1 retention predicate and scan loops that end normally only at io.EOF, R08.2 newest segment untouched, R08.3 byte identity, R08.4 key table monotone / worker exit, R01.5 (shared) unit discipline, R08.6 readers re-initialise, R08.7 atomic swap in Clean, shared R01.8 (log shapes), R01.9 (reader provenance), R01.10 (scanner entries not retained), R09.7 (segments rolled during a clean re-attached), R16.8 (compaction settings plumbing). R15.8 (shared) streams.compact.* reach their Config fields. NOT decided: survivor set for every key pattern and layout.",
	})
}

func runC08(c *eng.Ctx) {
	c.Rule("R01.6", "K1")
	ruleSearchPredicates(c)
	c.Rule("R01.9", "K5")
	ruleReaderStartsInsideItsSegment(c)
	c.Rule("R05.8", "K2")
	ruleRebuildIndexAcceptsGaps(c)
	c.Rule("R08.1", "K1")
	ruleKeylessMessagesAreNotTracked(c)
	ruleKeyScanCoversEverySegment(c)
	ruleRetentionLooksUpThisMessagesKey(c)
	ruleNegativeSettingsTakeTheDefault(c)
	c.Rule("R08.9", "K3")
	ruleCompactedSegmentsArePublishedAsTheyAreReplaced(c)
	c.Rule("R08.10", "K4")
	ruleSegmentListsAreNeverRewrittenInPlace(c)
	c.Rule("R01.8", "K5")
	ruleNoEntryAtOrBelowIsMinusOne(c)
	p := c.P
	// ---- R08.1 retention predicate
	c.Rule("R08.1", "K1")
	if fn := c.Fn(cl + "(*compactCleaner).cleanSegment"); fn != nil {
		off := eng.Call(-1, cl+"messageSet.Offset")
		key := eng.Call(-1, cl+"SerializedMessage.Key")
		latest := func(v ssa.Value) bool {
			if ph, ok := v.(*ssa.Phi); ok {
				for _, e := range ph.Edges {
					if eng.Call(-1, cl+"keyOffset.get")(e) {
						return true
					}
				}
			}
			return eng.Call(-1, cl+"keyOffset.get")(v)
		}
		keyNil := eng.CmpEdges(fn, key, eng.NilConst, eng.EQ)
		keySet := eng.CmpEdges(fn, key, eng.NilConst, eng.NE)
		isLatest := eng.CmpEdges(fn, off, latest, eng.EQ)
		notLatest := eng.CmpEdges(fn, off, latest, eng.NE)
		aboveHW := eng.CmpEdges(fn, off, eng.Param("hw"), eng.GE)
		belowHW := eng.CmpEdges(fn, off, eng.Param("hw"), eng.LT)
		scans := eng.CallsIn(fn, cl+"segmentScanner.Scan")
		writes := eng.CallsIn(fn, cl+"segment.WriteMessageSet")
		// the keep decision, however it is written: separate tests chained with ||, or the negation of a named
		// `discard := key != nil && offset != latestOffset && offset < hw` — on a keep edge one of the three is known
		keep := eng.EdgesWhere(fn, func(a eng.AtomView) bool {
			return a.RelHolds(key, eng.NilConst, eng.EQ) || a.RelHolds(off, latest, eng.EQ) || a.RelHolds(off, eng.Param("hw"), eng.GE|eng.GT)
		})
		_, _, _ = keyNil, isLatest, aboveHW
		if len(writes) != 1 || len(scans) == 0 || len(keep) == 0 || len(keySet) == 0 || len(notLatest) == 0 || len(belowHW) == 0 {
			c.Unresolved("the retention test (key == nil || offset == latestOffset || offset >= hw) and its WriteMessageSet in cleanSegment")
		} else {
			var boundary []ssa.Instruction
			for _, s := range scans {
				boundary = append(boundary, s.(ssa.Instruction))
			}
			isScan := func(x ssa.Instruction) bool {
				for _, b := range boundary {
					if x == b {
						return true
					}
				}
				return false
			}
			// (a) the drop: the `removed++` is the addition of 1 to a loop-carried counter outside the keep branch
			var drops []ssa.Instruction
			eng.Instrs(fn, func(in ssa.Instruction) {
				if bo, ok := in.(*ssa.BinOp); ok && bo.Op == token.ADD && eng.IntConst(1)(bo.Y) {
					if _, ok := bo.X.(*ssa.Phi); ok && bo.Type().String() == "int" {
						drops = append(drops, in)
					}
				}
			})
			if len(drops) != 1 {
				c.Unresolved("the removed++ of cleanSegment")
			} else {
				for name, es := range map[string][]eng.Edge{"key != nil": keySet, "offset != latestOffset": notLatest, "offset < hw": belowHW} {
					q := &eng.PathQuery{Fn: fn, FromAfter: boundary, Target: func(x ssa.Instruction) bool { return x == drops[0] }, CutEdges: es, CutInstr: isScan}
					w := q.Find()
					c.Check(w == nil && len(es) > 0, "message dropped only when "+name, c.Pos(drops[0]), "the drop branch is reached only over the "+name+" edge", "compaction can drop a message without "+name+" (path "+w.String()+"): a keyless / latest-for-key / uncommitted message is lost")
				}
			}
			// (b) the keep: written when any of the three holds
			q := &eng.PathQuery{Fn: fn, FromAfter: boundary, Target: func(x ssa.Instruction) bool { return x == writes[0].(ssa.Instruction) }, CutEdges: keep, CutInstr: isScan}
			w := q.Find()
			c.Check(w == nil, "message kept on key == nil ∨ latest ∨ offset >= hw", c.Pos(writes[0].(ssa.Instruction)), "WriteMessageSet is reached only over one of the three keep edges", "a message is copied although none of the keep conditions holds (path "+w.String()+")")
			// latestOffset is the key table's value for this message's key
			ld := eng.CallsIn(fn, "sync.Map.Load")
			okKey := len(ld) == 1
			if okKey {
				cv, isConv := ld[0].Common().Args[1].(*ssa.MakeInterface)
				okKey = isConv && key(eng.Strip(cv.X))
			}
			c.Check(okKey, "latest offset looked up by the message's key", p.Pos(fn.Pos()), "keyOffsets.Load(string(key))", "the latest offset is not looked up with the key of the message being examined")
			// ... and read from the table entry exactly when the key was found
			found := eng.BoolEdges(fn, eng.Call(1, "sync.Map.Load"), true)
			okGet := len(found) > 0
			gets := eng.CallsIn(fn, cl+"keyOffset.get")
			for _, g := range gets {
				if gd, _ := eng.GuardedBy(fn, g.(ssa.Instruction), found); !gd {
					okGet = false
				}
			}
			c.Check(okGet && len(gets) == 1, "latest offset read when the key is in the table", p.Pos(fn.Pos()), "latest.(*keyOffset).get() on the ok edge of Load", "the table entry is read on the edge where the key was NOT found (and 0 is used where it was): every keyed message below the watermark except offset 0 is dropped")
		}
		// the outcome: an empty rewrite removes both files, any other rewrite replaces the old segment
		empty := eng.BoolEdges(fn, eng.Call(-1, cl+"segment.IsEmpty"), true)
		nonEmpty := eng.BoolEdges(fn, eng.Call(-1, cl+"segment.IsEmpty"), false)
		okOut := len(empty) > 0 && len(nonEmpty) > 0
		nOut := 0
		for _, ce := range eng.CallsIn(fn, cl+"cleanupEmptySegment") {
			nOut++
			if g, _ := eng.GuardedBy(fn, ce.(ssa.Instruction), empty); !g {
				okOut = false
			}
		}
		for _, rp := range eng.CallsIn(fn, cl+"segment.Replace") {
			nOut++
			if g, _ := eng.GuardedBy(fn, rp.(ssa.Instruction), nonEmpty); !g {
				okOut = false
			}
		}
		c.Check(okOut && nOut == 2, "an empty rewrite is removed, any other replaces the old segment", p.Pos(fn.Pos()), "cleanupEmptySegment on IsEmpty(), Replace otherwise", "cleanSegment deletes a rewritten segment that still holds messages together with the old one (or installs an empty one): every retained message of that segment is lost")
	}
	if fn := c.Fn(cl + "(*compactCleaner).compact"); fn != nil {
		// every rewritten segment that exists is part of the result, nil (dropped) ones are not
		okApp := false
		cleaned := eng.Call(0, cl+"compactCleaner.cleanSegment")
		exists := eng.CmpEdges(fn, cleaned, eng.NilConst, eng.NE)
		eng.Instrs(fn, func(in ssa.Instruction) {
			call, isCall := in.(*ssa.Call)
			if !isCall {
				return
			}
			if b, isB := call.Call.Value.(*ssa.Builtin); !isB || b.Name() != "append" {
				return
			}
			for _, e := range variadicElems(call.Call.Args[1]) {
				if cleaned(e) {
					if g, _ := eng.GuardedBy(fn, in, exists); g && len(exists) > 0 {
						okApp = true
					}
				}
			}
		})
		c.Check(okApp, "rewritten segments join the result when they exist", p.Pos(fn.Pos()), "append(compacted, cleaned) on cleaned != nil", "compact() does not add the rewritten segment to its result exactly when there is one: retained messages vanish from the segment list (or a nil segment enters it)")
	}
	c.Floor(8)

	// ---- R08.2 newest segment untouched
	c.Rule("R08.2", "K5")
	ruleNewestSegmentUntouched(c)

	// ---- R08.3 byte identity
	c.Rule("R08.3", "K5")
	if fn := c.Fn(cl + "(*compactCleaner).cleanSegment"); fn != nil {
		for _, w := range eng.CallsIn(fn, cl+"segment.WriteMessageSet") {
			call := w.(*ssa.Call)
			ms := call.Call.Args[1]
			fromScan := isScanResult(ms)
			c.Check(fromScan, "rewritten bytes are the scanned message set", c.Pos(call), "ms passed to WriteMessageSet is the scanner's result", "the bytes written to the cleaned segment are not the message set returned by the scanner: "+eng.Describe(ms))
			// no store into ms
			mutated := false
			if refs := eng.Strip(ms).Referrers(); refs != nil {
				for _, r := range *refs {
					if ia, ok := r.(*ssa.IndexAddr); ok {
						for _, rr := range *ia.Referrers() {
							if _, ok := rr.(*ssa.Store); ok {
								mutated = true
							}
						}
					}
				}
			}
			c.Check(!mutated, "message set not modified before rewriting", c.Pos(call), "no store into the scanned bytes", "the scanned message set is modified before being written to the cleaned segment")
			en := eng.AsCall(call.Call.Args[2])
			okEn := en != nil && eng.CalleeRef(&en.Call) == cl+"entriesForMessageSet" && eng.Strip(en.Call.Args[1]) == eng.Strip(ms) && eng.Call(-1, cl+"segment.Position")(en.Call.Args[0])
			c.Check(okEn, "index entries derived from the same bytes at the cleaned segment's position", c.Pos(call), "entriesForMessageSet(cleaned.Position(), ms)", "index entries of the cleaned segment are not derived from (cleaned.Position(), ms)")
		}
	}
	c.Floor(3)

	// ---- R08.4 key table
	c.Rule("R08.4", "K1m")
	if fn := c.Fn(cl + "(*keyOffset).set"); fn != nil {
		f := p.Field(clPkg, "keyOffset", "offset")
		for _, st := range eng.FieldStores(fn, func(fa *ssa.FieldAddr) bool { return fieldIs(fa, f) }) {
			g, w := eng.GuardedBy(fn, st, eng.CmpEdges(fn, eng.Param("offset"), eng.Load(f, nil), eng.GT))
			c.Check(g, "latest offset per key only grows", c.Pos(st), "stored only on offset > k.offset", "the per-key latest offset can decrease (path "+w.String()+"): an older message would be kept instead of the newest")
		}
	}
	if fn := c.Fn(cl + "(*compactCleaner).scanSegments"); fn != nil {
		stop := eng.CmpEdges(fn, eng.Call(-1, cl+"messageSet.Offset"), eng.Param("hw"), eng.GT)
		c.Check(len(stop) > 0, "key scan bounded by the high watermark", p.Pos(fn.Pos()), "scan stops at offset > hw", "scanSegments does not stop at the high watermark")
		for _, ls := range eng.CallsIn(fn, "sync.Map.LoadOrStore") {
			g, _ := eng.GuardedBy(fn, ls.(ssa.Instruction), eng.CmpEdges(fn, eng.Call(-1, cl+"messageSet.Offset"), eng.Param("hw"), eng.LE))
			c.Check(g, "only committed messages enter the key table", c.Pos(ls.(ssa.Instruction)), "LoadOrStore only on offset <= hw", "uncommitted messages can enter the key table")
		}
		for _, r := range eng.Returns(fn) {
			g, w := eng.PrecededBy(fn, r, eng.IsCallTo("sync.WaitGroup.Done"))
			c.Check(g, "scan worker signals completion", c.Pos(r), "every return passes wg.Done()", "a scan worker can return without wg.Done(): scanKeys waits for ever (path "+w.String()+")")
		}
	}
	c.Floor(4)

	// ---- shared unit discipline
	c.Rule("R01.5", "K5")
	ruleUnitDiscipline(c)
	c.Floor(8)

	c.Rule("R01.8", "K5")
	ruleLogShapes(c)
	c.Floor(20)
	c.Rule("R01.9", "K5")
	ruleReaderSegment(c)
	c.Floor(6)
	c.Rule("R01.10", "K5")
	ruleScannerEntries(c)
	c.Floor(1)
	// appends that roll a segment while a compaction runs
	c.Rule("R09.7", "K1")
	ruleCleanSwap(c)
	c.Floor(1)

	// ---- R08.6 readers re-initialise
	c.Rule("R08.6", "K4")
	rep := p.Field(clPkg, "segment", "replaced")
	for _, a := range eng.StoresToField(p, rep, true) {
		st := a.Use.(*ssa.Store)
		la := eng.LocksOf(p, a.Fn, 0)
		held := la.At(st)[eng.Path(a.Base)+".RWMutex"] == 2
		c.Check(held, "replaced flag set under the old segment's lock in "+a.Fn.Name(), c.Pos(st), "old segment write-locked", "segment.replaced is set without the segment's lock: a concurrent ReadAt can report ErrSegmentClosed instead of ErrSegmentReplaced")
	}
	if fn := c.Fn(cl + "cleanupEmptySegment"); fn != nil {
		// which of its parameters is the one flagged as replaced — and at every call, that is the segment that was in the
		// log (the one Cleaned() was called on), not the throw-away segment made from it
		flagged := -1
		for _, a := range eng.StoresToField(p, rep, true) {
			if a.Fn != fn {
				continue
			}
			for i, prm := range fn.Params {
				if a.Base == ssa.Value(prm) {
					flagged = i
				}
			}
		}
		if flagged < 0 {
			c.Unresolved("the parameter of cleanupEmptySegment whose replaced flag is set")
		} else {
			sites := 0
			for _, caller := range p.Funcs {
				for _, call := range eng.CallsIn(caller, cl+"cleanupEmptySegment") {
					sites++
					arg := call.Common().Args[flagged]
					isOld := false
					for _, cc := range eng.CallsIn(caller, cl+"segment.Cleaned") {
						if cc.Common().Args[0] == arg {
							isOld = true
						}
					}
					c.Check(isOld, "the segment flagged as replaced is the one compaction read from", c.Pos(call.(ssa.Instruction)), "cleanupEmptySegment's flagged parameter receives the segment Cleaned() was called on", "the segment handed to cleanupEmptySegment as the one to flag as replaced is not the segment that was in the log: the flag lands on the throw-away cleaned segment, and a reader positioned in the removed segment gets ErrSegmentClosed instead of re-positioning")
				}
			}
			if sites == 0 {
				c.Unresolved("a call of cleanupEmptySegment")
			}
		}
		dels := eng.CallsIn(fn, cl+"segment.Delete")
		for _, d := range dels {
			if flagged >= 0 && d.Common().Args[0] == ssa.Value(fn.Params[flagged]) {
				g, w := eng.PrecededBy(fn, d.(ssa.Instruction), func(in ssa.Instruction) bool {
					st, ok := in.(*ssa.Store)
					if !ok {
						return false
					}
					fa, ok := st.Addr.(*ssa.FieldAddr)
					return ok && fieldIs(fa, rep)
				})
				c.Check(g, "replaced flag precedes deletion of the old segment", c.Pos(d.(ssa.Instruction)), "old.replaced = true before old.Delete()", "the old segment is deleted before it is flagged as replaced (path "+w.String()+")")
			}
		}
	}
	if fn := c.Fn(cl + "(*Reader).ReadMessage"); fn != nil {
		ok := len(eng.CallsIn(fn, cl+"commitLog.newReaderCommitted")) == 1 && len(eng.CallsIn(fn, cl+"commitLog.newReaderUncommitted")) == 1
		if ok {
			for _, nr := range eng.CallsIn(fn, cl+"commitLog.newReaderCommitted", cl+"commitLog.newReaderUncommitted") {
				if !eng.LoadNamed("offset", eng.Param("r"))(nr.Common().Args[1]) {
					ok = false
				}
			}
		}
		c.Check(ok, "reader re-created at its next offset after a replacement", p.Pos(fn.Pos()), "on ErrSegmentReplaced the context reader is re-created at r.offset", "Reader.ReadMessage does not re-create its reader at r.offset when the segment was replaced")
		// r.offset advances to offset+1 on success
		okAdv := false
		for _, st := range eng.FieldStores(fn, func(fa *ssa.FieldAddr) bool { return eng.FieldNameOf(fa) == "offset" }) {
			if eng.Bin(token.ADD, eng.AnyV, eng.IntConst(1))(st.Val) {
				okAdv = true
			}
		}
		c.Check(okAdv, "reader position advances by one offset", p.Pos(fn.Pos()), "r.offset = offset + 1", "the reader does not remember offset+1 as its restart position")
	}
	if fn := c.Fn(cl + "(*segment).ReadAt"); fn != nil {
		ok := false
		isRep := eng.Global(cl + "ErrSegmentReplaced")
		eng.Instrs(fn, func(in ssa.Instruction) {
			uses := false
			switch x := in.(type) {
			case *ssa.Return:
				for _, r := range eng.RetVals(x) {
					if isRep(r) {
						uses = true
					}
				}
			case *ssa.Store:
				uses = isRep(x.Val) // named result spilled because of the deferred unlock
			}
			if uses {
				// "gone, look the position up again": the segment was replaced by the cleaner — or deleted by retention, which
				// readers recover from in the same way
				gone := append(eng.BoolEdges(fn, eng.Load(rep, nil), true), eng.BoolEdges(fn, eng.LoadNamed("deleted", nil), true)...)
				g, _ := eng.GuardedBy(fn, in, gone)
				ok = g && len(eng.BoolEdges(fn, eng.Load(rep, nil), true)) > 0
			}
		})
		c.Check(ok, "reads of a replaced segment say so", p.Pos(fn.Pos()), "ErrSegmentReplaced is returned when s.replaced", "ReadAt does not report ErrSegmentReplaced for a replaced segment")
	}
	c.Floor(6)

	// ---- R08.7 atomic swap in Clean
	c.Rule("R08.7", "K2")
	if fn := c.Fn(cl + "(*commitLog).Clean"); fn != nil {
		la := eng.LocksOf(p, fn, 0)
		chk := func(what string, in ssa.Instruction) {
			held := false
			for k, m := range la.At(in) {
				if strings.HasSuffix(k, ".mu") && m == 2 {
					held = true
				}
			}
			c.Check(held, what+" under l.mu", c.Pos(in), "write lock held", what+" happens outside the log's write lock: readers can observe the new segment list with the old epoch cache (or segments appended during the clean are lost)")
		}
		segF := p.Field(clPkg, "commitLog", "segments")
		for _, st := range eng.FieldStores(fn, func(fa *ssa.FieldAddr) bool { return fieldIs(fa, segF) }) {
			chk("swap of l.segments", st)
		}
		for _, cc := range eng.CallsIn(fn, cl+"commitLog.rebaseSegments", cl+"leaderEpochCache.Replace", cl+"leaderEpochCache.ClearEarliest") {
			chk(strings.TrimPrefix(eng.CalleeRef(cc.Common()), cl), cc.(ssa.Instruction))
		}
		// rebase exactly when segments were appended during the clean
		for _, cc := range eng.CallsIn(fn, cl+"commitLog.rebaseSegments") {
			g, _ := eng.GuardedBy(fn, cc.(ssa.Instruction), eng.CmpEdges(fn, eng.Len(nil), eng.Len(nil), eng.GT))
			c.Check(g, "rebase when the log grew during the clean", c.Pos(cc.(ssa.Instruction)), "rebaseSegments on len(new) > len(old)", "segments appended during the clean are not rebased onto the cleaned list")
		}
	}
	c.Floor(5)
	c.Rule("R16.8", "K6")
	ruleStreamConfigPlumbing(c, "CompactEnabled", "CompactMaxGoroutines")
	c.Floor(6)
	// ---- R15.8 (shared) the configuration keys this property's switches hang on reach their fields
	ruleConfigWiring(c, "R15.8")

	c.Rule("R01.8", "K5")
	ruleReverseStartSlotUnclamped(c)
	c.Rule("R01.10", "K5")
	ruleScannersReturnFreshBuffers(c)

	// ---- R14.6 (shared) a reader recognises that compaction replaced the segment under it
	nSent := ruleSentinelIdentity(c, "R14.6", []string{cl + "(*Reader).ReadMessage"}, "the reader does not notice that the segment it was reading was replaced by the cleaner: it fails instead of re-opening at its position in the rewritten segment")
	c.Check(nSent >= 2, "Reader.ReadMessage recognises replaced segments", "", "comparisons with ErrSegmentReplaced / ErrCommitLogReadonly found", "Reader.ReadMessage no longer tells a replaced segment apart")

	// ---- R14.6 (shared) the scanners' end-of-segment sentinel reaches the compactor's identity tests unwrapped (else a complete
	// scan is reported as a failed one and compaction never succeeds)
	nScan := ruleSentinelIdentity(c, "R14.6", []string{cl + "(*compactCleaner).compact", cl + "(*compactCleaner).cleanSegment", cl + "(*compactCleaner).scanSegments"}, "the compactor takes the regular end of a segment for a scan failure and aborts every pass")
	c.Check(nScan >= 3, "the compactor's scan loops recognise the end of a segment", "", "identity comparisons with io.EOF resolved to the scanner", "fewer end-of-segment comparisons in the compactor than on the reference tree")

	c.Rule("R08.6", "K2")
	ruleReverseReaderSurvivesReplacement(c)

	c.Rule("R08.1", "K1")
	ruleCompactionScansEndOnlyAtEOF(c)

}

func isScanResult(v ssa.Value) bool {
	v = eng.Strip(v)
	if ph, ok := v.(*ssa.Phi); ok {
		for _, e := range ph.Edges {
			if !isScanResult(e) {
				return false
			}
		}
		return len(ph.Edges) > 0
	}
	if ct, ok := v.(*ssa.ChangeType); ok {
		return isScanResult(ct.X)
	}
	e, ok := v.(*ssa.Extract)
	if !ok || e.Index != 0 {
		return false
	}
	c, ok := e.Tuple.(*ssa.Call)
	return ok && eng.CalleeRef(&c.Call) == cl+"segmentScanner.Scan"
}

// ruleNewestSegmentUntouched (R08.2, shared with C11): compaction leaves the active segment alone and keeps every segment it did not rewrite.
func ruleNewestSegmentUntouched(c *eng.Ctx) {
	p := c.P
	_ = p
	if fn := c.Fn(cl + "(*compactCleaner).compact"); fn != nil {
		// the loop ranges over segments[:len(segments)-1]
		okRange := false
		eng.Instrs(fn, func(in ssa.Instruction) {
			if sl, ok := in.(*ssa.Slice); ok && eng.Param("segments")(sl.X) && sl.Low == nil && sl.High != nil {
				if eng.Bin(token.SUB, eng.Len(eng.Param("segments")), eng.IntConst(1))(sl.High) {
					okRange = true
				}
			}
		})
		c.Check(okRange, "compaction skips the newest segment", p.Pos(fn.Pos()), "cleanSegment is applied to segments[:len(segments)-1]", "compact does not exclude the last (active) segment from rewriting")
		for _, cs := range eng.CallsIn(fn, cl+"compactCleaner.cleanSegment") {
			seg := eng.ArgOf(cs.Common(), "seg")
			if seg == nil {
				seg = cs.Common().Args[len(cs.Common().Args)-3]
			}
			ia := indexOfLoad(seg)
			ok := false
			if ia != nil {
				if sl, ok2 := ia.X.(*ssa.Slice); ok2 && sl.High != nil {
					ok = true
				}
			}
			c.Check(ok, "cleanSegment argument", c.Pos(cs.(ssa.Instruction)), "an element of segments[:len-1]", "cleanSegment is applied to a segment that is not taken from segments[:len-1]")
		}
		// last appended unchanged
		okLast := false
		eng.Instrs(fn, func(in ssa.Instruction) {
			call, ok := in.(*ssa.Call)
			if !ok {
				return
			}
			b, ok := call.Call.Value.(*ssa.Builtin)
			if !ok || b.Name() != "append" {
				return
			}
			el := variadicElems(call.Call.Args[1])
			if len(el) == 1 {
				if ia := indexOfLoad(el[0]); ia != nil && eng.Param("segments")(ia.X) && eng.Bin(token.SUB, eng.Len(eng.Param("segments")), eng.IntConst(1))(ia.Index) {
					okLast = true
				}
			}
		})
		c.Check(okLast, "newest segment carried over unchanged", p.Pos(fn.Pos()), "compacted = append(compacted, segments[len-1])", "the newest segment is not appended unchanged to the compacted list")
	}
	if fn := c.Fn(cl + "(*compactCleaner).Compact"); fn != nil {
		few := eng.CmpEdges(fn, eng.Len(eng.Param("segments")), eng.IntConst(1), eng.GT)
		for _, cc := range eng.CallsIn(fn, cl+"compactCleaner.compact") {
			g, w := eng.GuardedBy(fn, cc.(ssa.Instruction), few)
			c.Check(g && len(few) > 0, "single-segment log is not compacted", c.Pos(cc.(ssa.Instruction)), "compact only when len(segments) > 1", "a log with a single (active) segment can be compacted (path "+w.String()+")")
		}
	}
	if fn := c.Fn(cl + "(*commitLog).clean"); fn != nil {
		for _, cc := range eng.CallsIn(fn, cl+"compactCleaner.Compact") {
			ok := eng.Call(-1, cl+"commitLog.HighWatermark")(cc.Common().Args[1])
			c.Check(ok, "compaction bounded by the current high watermark", c.Pos(cc.(ssa.Instruction)), "Compact(l.HighWatermark(), …)", "Compact is not given the log's current high watermark")
		}
	}
	c.Floor(5)
}
