package norm

import (
	"fmt"
	"go/ast"
	"go/token"
	"go/types"
	"strconv"
	"strings"

	"golang.org/x/tools/go/packages"

	"lbcheck/ir"
)

// etaExpand rewrites one use of the new function nf AS A VALUE (a method value `x.m`, a function value `f`) into the
// function literal that calls it: `func(a A, b B) R { return x.m(a, b) }`. The call inside the literal is then an ordinary
// static call, which the inliner can replace — so a closure that was turned into a named method (and passed as a method
// value) gets back the shape it had. The rewrite is behaviour-preserving when evaluating the receiver expression later
// gives the same value as evaluating it now: it has to consist of identifiers that are never assigned after their
// declaration, field selections on them, and type conversions.
func etaExpand(p *ir.Program, nf *newFn, content func(string) ([]byte, error), iter int) (string, []byte, error) {
	for _, pk := range p.Pkgs {
		for i, f := range pk.Syntax {
			if i >= len(pk.CompiledGoFiles) {
				continue
			}
			var target ast.Expr
			var encl *ast.FuncDecl
			var stack []ast.Node
			ast.Inspect(f, func(n ast.Node) bool {
				if target != nil {
					return false
				}
				if n == nil {
					stack = stack[:len(stack)-1]
					return true
				}
				stack = append(stack, n)
				id, ok := n.(*ast.Ident)
				if !ok || pk.TypesInfo.Uses[id] != types.Object(nf.obj) {
					return true
				}
				j := len(stack) - 2
				var expr ast.Expr = id
				if j >= 0 {
					if se, ok := stack[j].(*ast.SelectorExpr); ok && se.Sel == id {
						expr = se
						j--
					}
				}
				if j >= 0 {
					if ce, ok := stack[j].(*ast.CallExpr); ok && ce.Fun == expr {
						return true // a call, not a value
					}
				}
				target = expr
				for k := len(stack) - 1; k >= 0; k-- {
					if fd, ok := stack[k].(*ast.FuncDecl); ok {
						encl = fd
						break
					}
				}
				return false
			})
			if target == nil {
				continue
			}
			if encl == nil || encl.Body == nil {
				return "", nil, fmt.Errorf("value use outside a function body")
			}
			sig := nf.obj.Type().(*types.Signature)
			if sig.Variadic() {
				return "", nil, fmt.Errorf("variadic")
			}
			if se, ok := target.(*ast.SelectorExpr); ok {
				if _, isPkg := pk.TypesInfo.Uses[identOf(se.X)].(*types.PkgName); !isPkg {
					if why := stableExpr(pk, encl, se.X); why != "" {
						return "", nil, fmt.Errorf("receiver of the method value is not stable: %s", why)
					}
				}
			}
			fname := pk.CompiledGoFiles[i]
			src, err := content(fname)
			if err != nil {
				return "", nil, err
			}
			typeFail := ""
			qual := func(tp *types.Package) string {
				if tp == pk.Types {
					return ""
				}
				for _, im := range f.Imports {
					ipath, _ := strconv.Unquote(im.Path.Value)
					if ipath != tp.Path() {
						continue
					}
					if im.Name != nil {
						if im.Name.Name == "_" || im.Name.Name == "." {
							break
						}
						return im.Name.Name
					}
					return tp.Name()
				}
				typeFail = "type from package " + tp.Path() + " cannot be named in this file"
				return tp.Name()
			}
			var params, args []string
			for k := 0; k < sig.Params().Len(); k++ {
				n := "a" + strconv.Itoa(k) + "__e" + strconv.Itoa(iter)
				params = append(params, n+" "+types.TypeString(sig.Params().At(k).Type(), qual))
				args = append(args, n)
			}
			res := ""
			if sig.Results().Len() == 1 {
				res = " " + types.TypeString(sig.Results().At(0).Type(), qual)
			} else if sig.Results().Len() > 1 {
				var rs []string
				for k := 0; k < sig.Results().Len(); k++ {
					rs = append(rs, types.TypeString(sig.Results().At(k).Type(), qual))
				}
				res = " (" + strings.Join(rs, ", ") + ")"
			}
			if typeFail != "" {
				return "", nil, fmt.Errorf("%s", typeFail)
			}
			off := func(pos token.Pos) int { return p.Fset.Position(pos).Offset }
			callee := string(src[off(target.Pos()):off(target.End())])
			ret := "return "
			if sig.Results().Len() == 0 {
				ret = ""
			}
			lit := "func(" + strings.Join(params, ", ") + ")" + res + " { " + ret + callee + "(" + strings.Join(args, ", ") + ") }"
			return fname, splice(p.Fset, src, target.Pos(), target.End(), lit), nil
		}
	}
	return "", nil, nil
}

// stableExpr: "" when e consists of identifiers that are assigned only where they are declared (in the enclosing
// function), selections on them and conversions.
func stableExpr(pk *packages.Package, encl *ast.FuncDecl, e ast.Expr) string {
	switch x := e.(type) {
	case *ast.Ident:
		obj := pk.TypesInfo.Uses[x]
		if obj == nil {
			return "unknown identifier " + x.Name
		}
		if _, isVar := obj.(*types.Var); !isVar {
			return ""
		}
		why := ""
		ast.Inspect(encl, func(n ast.Node) bool {
			switch s := n.(type) {
			case *ast.AssignStmt:
				for _, l := range s.Lhs {
					if id, ok := l.(*ast.Ident); ok && pk.TypesInfo.Uses[id] == obj {
						why = x.Name + " is assigned in the function"
					}
				}
			case *ast.IncDecStmt:
				if id, ok := s.X.(*ast.Ident); ok && pk.TypesInfo.Uses[id] == obj {
					why = x.Name + " is modified in the function"
				}
			case *ast.UnaryExpr:
				if id, ok := s.X.(*ast.Ident); ok && s.Op == token.AND && pk.TypesInfo.Uses[id] == obj {
					why = "the address of " + x.Name + " is taken"
				}
			case *ast.RangeStmt:
				for _, l := range []ast.Expr{s.Key, s.Value} {
					if id, ok := l.(*ast.Ident); ok && id != nil && (pk.TypesInfo.Uses[id] == obj || pk.TypesInfo.Defs[id] == obj) {
						why = x.Name + " is a loop variable"
					}
				}
			}
			return why == ""
		})
		return why
	case *ast.SelectorExpr:
		return stableExpr(pk, encl, x.X)
	case *ast.ParenExpr:
		return stableExpr(pk, encl, x.X)
	case *ast.CallExpr:
		if tv, ok := pk.TypesInfo.Types[x.Fun]; ok && tv.IsType() && len(x.Args) == 1 {
			return stableExpr(pk, encl, x.Args[0])
		}
		return "a call"
	case *ast.BasicLit:
		return ""
	}
	return fmt.Sprintf("%T", e)
}
