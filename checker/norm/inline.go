package norm

import (
	"fmt"
	"go/ast"
	"go/token"
	"go/types"
	"sort"
	"strconv"
	"strings"

	"lbcheck/ir"
)

// pathTo returns the chain of nodes from the file down to target (inclusive).
func pathTo(root ast.Node, target ast.Node) []ast.Node {
	var stack, found []ast.Node
	ast.Inspect(root, func(n ast.Node) bool {
		if found != nil {
			return false
		}
		if n == nil {
			stack = stack[:len(stack)-1]
			return true
		}
		stack = append(stack, n)
		if n == target {
			found = append([]ast.Node(nil), stack...)
			return false
		}
		return true
	})
	return found
}

func isStmtList(parent ast.Node, s ast.Stmt) bool {
	var list []ast.Stmt
	switch p := parent.(type) {
	case *ast.BlockStmt:
		list = p.List
	case *ast.CaseClause:
		list = p.Body
	case *ast.CommClause:
		list = p.Body
	default:
		return false
	}
	for _, x := range list {
		if x == s {
			return true
		}
	}
	return false
}

// pureBuiltin: builtins whose evaluation has no side effect and cannot be observed by the hoisted call.
var pureBuiltin = map[string]bool{"len": true, "cap": true, "new": true, "make": true, "min": true, "max": true, "complex": true, "real": true, "imag": true}

// inlineAt returns the caller's file with the call replaced (or with a preparatory, behaviour-preserving rewrite that makes
// the call a statement-level one for the next round).
func inlineAt(p *ir.Program, s site, src, csrc []byte, iter int) ([]byte, error) {
	fset := p.Fset
	info := s.pk.TypesInfo
	off := func(pos token.Pos) int { return fset.Position(pos).Offset }
	text := func(a, b token.Pos) string { return string(src[off(a):off(b)]) }

	path := pathTo(s.file, s.call)
	if path == nil {
		return nil, fmt.Errorf("call not found in its file")
	}
	// the callee must live in the caller's package (its body names package-level objects unqualified)
	calleeObj := calleeFunc(info, s.call)
	if calleeObj == nil || calleeObj.Pkg() != s.pk.Types {
		return nil, fmt.Errorf("callee is in another package")
	}
	sig := calleeObj.Type().(*types.Signature)

	// nearest enclosing statement
	si := -1
	for i := len(path) - 2; i >= 0; i-- {
		if _, ok := path[i].(ast.Stmt); ok {
			si = i
			break
		}
	}
	if si < 1 {
		return nil, fmt.Errorf("no enclosing statement")
	}
	S := path[si].(ast.Stmt)
	parent := path[si-1]
	wrap := false
	switch st := S.(type) {
	case *ast.ExprStmt, *ast.AssignStmt, *ast.ReturnStmt, *ast.DeclStmt, *ast.IncDecStmt, *ast.SendStmt:
		if !isStmtList(parent, S) {
			if ifs, ok := parent.(*ast.IfStmt); ok && ifs.Init == S {
				// if init; cond {…}  →  { init; if cond {…} }   (same scopes, same order)
				repl := "{\n" + text(ifs.Init.Pos(), ifs.Init.End()) + "\nif " + text(ifs.Cond.Pos(), ifs.End()) + "\n}"
				return splice(fset, src, ifs.Pos(), ifs.End(), repl), nil
			}
			return nil, fmt.Errorf("statement is not in a statement list")
		}
	case *ast.IfStmt:
		if st.Init != nil || !within(st.Cond, s.call) {
			return nil, fmt.Errorf("call inside an if statement, not in its condition")
		}
		wrap = true
	case *ast.SwitchStmt:
		if st.Init != nil || st.Tag == nil || !within(st.Tag, s.call) {
			return nil, fmt.Errorf("call inside a switch statement, not in its tag")
		}
		wrap = true
	case *ast.RangeStmt:
		if !within(st.X, s.call) {
			return nil, fmt.Errorf("call inside a range statement, not in the ranged expression")
		}
		wrap = true
	default:
		return nil, fmt.Errorf("call in a %T", S)
	}
	if _, labeled := parent.(*ast.LabeledStmt); labeled {
		return nil, fmt.Errorf("labeled statement")
	}
	if wrap {
		if _, inList := parent.(*ast.IfStmt); !inList && !isStmtList(parent, S) {
			return nil, fmt.Errorf("compound statement is not in a statement list")
		}
	}
	// the call must be evaluated unconditionally, and first among the operations of S that another operation could observe
	for i := si + 1; i < len(path)-1; i++ {
		switch a := path[i].(type) {
		case *ast.BinaryExpr:
			if (a.Op == token.LAND || a.Op == token.LOR) && within(a.Y, s.call) {
				return nil, fmt.Errorf("call is evaluated conditionally (right operand of %s)", a.Op)
			}
		case *ast.FuncLit:
			return nil, fmt.Errorf("unreachable: statement search crosses a function literal")
		}
	}
	isDirectStmt := false
	if es, ok := S.(*ast.ExprStmt); ok && es.X == s.call {
		isDirectStmt = true
	}
	if !isDirectStmt {
		blocked := ""
		ast.Inspect(S, func(n ast.Node) bool {
			if n == nil || blocked != "" {
				return false
			}
			if n.Pos() >= s.call.Pos() {
				return false // at or after the call in source order
			}
			if n.End() > s.call.Pos() && !within(n, s.call) {
				return true
			}
			switch x := n.(type) {
			case *ast.CallExpr:
				if within(x, s.call) && x != s.call {
					// an enclosing call: its function value and earlier arguments are inspected as children
					return true
				}
				if tv, ok := info.Types[x.Fun]; ok && tv.IsType() {
					return true // conversion
				}
				if id, ok := x.Fun.(*ast.Ident); ok {
					if _, isB := info.Uses[id].(*types.Builtin); isB && pureBuiltin[id.Name] {
						return true
					}
				}
				blocked = "another call precedes it in the statement"
			case *ast.UnaryExpr:
				if x.Op == token.ARROW {
					blocked = "a receive precedes it in the statement"
				}
			case *ast.FuncLit:
				return false
			}
			return true
		})
		if blocked != "" {
			return nil, fmt.Errorf("%s", blocked)
		}
	}

	nres := sig.Results().Len()
	if !isDirectStmt && nres == 0 {
		return nil, fmt.Errorf("void call used as an operand")
	}
	sfx := "__n" + strconv.Itoa(iter)
	label := "inl" + sfx

	// type printing relative to the caller's file
	typeFail := ""
	qual := func(pk *types.Package) string {
		if pk == s.pk.Types {
			return ""
		}
		for _, im := range s.file.Imports {
			ipath, _ := strconv.Unquote(im.Path.Value)
			if ipath != pk.Path() {
				continue
			}
			if im.Name != nil {
				if im.Name.Name == "_" || im.Name.Name == "." {
					break
				}
				return im.Name.Name
			}
			return pk.Name()
		}
		typeFail = "type from package " + pk.Path() + " cannot be named in " + fset.Position(s.file.Pos()).Filename
		return pk.Name()
	}
	tstr := func(t types.Type) string { return types.TypeString(t, qual) }

	// ---- callee side
	cinfo := info // same package
	coff := func(pos token.Pos) int { return fset.Position(pos).Offset }
	d := s.callee
	rename := map[types.Object]string{}
	var binds []string
	// receiver
	if d.Recv != nil && len(d.Recv.List) > 0 {
		sel, ok := s.call.Fun.(*ast.SelectorExpr)
		if !ok {
			return nil, fmt.Errorf("method called without a selector")
		}
		selection := info.Selections[sel]
		if selection == nil || len(selection.Index()) != 1 {
			return nil, fmt.Errorf("method reached through an embedded field")
		}
		recvT := sig.Recv().Type()
		exprT := info.TypeOf(sel.X)
		rx := text(sel.X.Pos(), sel.X.End())
		var val string
		switch {
		case types.Identical(exprT, recvT):
			val = rx
		case isPtrTo(recvT, exprT):
			val = "&" + rx
		case isPtrTo(exprT, recvT):
			val = "*" + rx
		default:
			return nil, fmt.Errorf("receiver conversion not understood")
		}
		name := ""
		if len(d.Recv.List[0].Names) > 0 {
			name = d.Recv.List[0].Names[0].Name
		}
		if name == "" || name == "_" {
			binds = append(binds, "_ = "+val)
		} else {
			fresh := name + sfx
			rename[cinfo.Defs[d.Recv.List[0].Names[0]]] = fresh
			binds = append(binds, fresh+" := "+val, "_ = "+fresh)
		}
	} else if sel, ok := s.call.Fun.(*ast.SelectorExpr); ok {
		if _, isPkg := info.Uses[identOf(sel.X)].(*types.PkgName); !isPkg {
			return nil, fmt.Errorf("function called through a selector that is not a package")
		}
	}
	// parameters
	ai := 0
	for _, fld := range d.Type.Params.List {
		names := fld.Names
		if len(names) == 0 {
			names = []*ast.Ident{nil}
		}
		for _, nm := range names {
			if ai >= len(s.call.Args) {
				return nil, fmt.Errorf("argument count (spread call?)")
			}
			arg := s.call.Args[ai]
			pt := sig.Params().At(ai).Type()
			ai++
			at := text(arg.Pos(), arg.End())
			if nm == nil || nm.Name == "_" {
				binds = append(binds, "_ = "+at)
				continue
			}
			fresh := nm.Name + sfx
			rename[cinfo.Defs[nm]] = fresh
			tv := info.Types[arg]
			if tv.Value == nil && !tv.IsNil() && tv.Type != nil && types.Identical(tv.Type, pt) {
				binds = append(binds, fresh+" := "+at)
			} else {
				binds = append(binds, "var "+fresh+" "+tstr(pt)+" = "+at)
			}
			binds = append(binds, "_ = "+fresh)
		}
	}
	if ai != len(s.call.Args) {
		return nil, fmt.Errorf("argument count")
	}
	// results
	var temps, namedDecl, namedList []string
	for i := 0; i < nres; i++ {
		temps = append(temps, "r"+strconv.Itoa(i)+sfx)
	}
	if d.Type.Results != nil {
		for _, fld := range d.Type.Results.List {
			for _, nm := range fld.Names {
				if nm.Name == "_" {
					fresh := "res_" + sfx + strconv.Itoa(len(namedList))
					namedDecl = append(namedDecl, "var "+fresh+" "+tstr(cinfo.TypeOf(fld.Type)))
					namedList = append(namedList, fresh)
					continue
				}
				fresh := nm.Name + sfx
				rename[cinfo.Defs[nm]] = fresh
				namedDecl = append(namedDecl, "var "+fresh+" "+tstr(cinfo.TypeOf(fld.Type)), "_ = "+fresh)
				namedList = append(namedList, fresh)
			}
		}
	}
	// identifiers of the body: renames, and free names must mean the same thing at the call site
	type edit struct {
		a, b int
		s    string
	}
	var idEdits []edit
	inner := s.pk.Types.Scope().Innermost(s.call.Pos())
	shadow := ""
	ast.Inspect(d.Body, func(n ast.Node) bool {
		id, ok := n.(*ast.Ident)
		if !ok {
			return true
		}
		obj := cinfo.Uses[id]
		if obj == nil {
			return true
		}
		if fresh, ok := rename[obj]; ok {
			idEdits = append(idEdits, edit{coff(id.Pos()), coff(id.End()), fresh})
			return true
		}
		if _, isLabel := obj.(*types.Label); isLabel {
			idEdits = append(idEdits, edit{coff(id.Pos()), coff(id.End()), id.Name + sfx})
			return true
		}
		free := false
		switch {
		case obj.Parent() == types.Universe, obj.Parent() == s.pk.Types.Scope():
			free = true
		}
		if pn, isPkg := obj.(*types.PkgName); isPkg {
			// the caller's file must know the package under the same name
			if inner != nil {
				_, o := inner.LookupParent(id.Name, s.call.Pos())
				if cpn, ok := o.(*types.PkgName); !ok || cpn.Imported() != pn.Imported() {
					shadow = "package name " + id.Name + " means something else (or nothing) at the call site"
				}
			}
			return true
		}
		if free && inner != nil {
			if _, o := inner.LookupParent(id.Name, s.call.Pos()); o != obj {
				shadow = "name " + id.Name + " is shadowed at the call site"
			}
		}
		return true
	})
	if shadow != "" {
		return nil, fmt.Errorf("%s", shadow)
	}
	// the labels the body declares
	ast.Inspect(d.Body, func(n ast.Node) bool {
		if ls, ok := n.(*ast.LabeledStmt); ok {
			idEdits = append(idEdits, edit{coff(ls.Label.Pos()), coff(ls.Label.End()), ls.Label.Name + sfx})
		}
		return true
	})
	sort.Slice(idEdits, func(i, j int) bool { return idEdits[i].a < idEdits[j].a })
	ctext := func(a, b int) string { // callee text with identifier renames applied
		var sb strings.Builder
		cur := a
		for _, e := range idEdits {
			if e.a < a || e.b > b {
				continue
			}
			sb.Write(csrc[cur:e.a])
			sb.WriteString(e.s)
			cur = e.b
		}
		sb.Write(csrc[cur:b])
		return sb.String()
	}
	// returns of the body itself (not of function literals inside it)
	var rets []*ast.ReturnStmt
	var walk func(n ast.Node)
	walk = func(n ast.Node) {
		ast.Inspect(n, func(x ast.Node) bool {
			switch r := x.(type) {
			case *ast.FuncLit:
				return false
			case *ast.ReturnStmt:
				rets = append(rets, r)
			}
			return true
		})
	}
	walk(d.Body)
	sort.Slice(rets, func(i, j int) bool { return rets[i].Pos() < rets[j].Pos() })
	// simple top-level defers (mu.Unlock() and the like): removed from the body and made explicitly at every exit
	var deferred []string
	for _, st := range d.Body.List {
		if ds, ok := st.(*ast.DeferStmt); ok {
			deferred = append([]string{ctext(coff(ds.Call.Pos()), coff(ds.Call.End()))}, deferred...)
			var kept []edit
			for _, e := range idEdits {
				if e.a >= coff(ds.Pos()) && e.b <= coff(ds.End()) {
					continue
				}
				kept = append(kept, e)
			}
			idEdits = append(kept, edit{coff(ds.Pos()), coff(ds.End()), ""})
		}
	}
	sort.Slice(idEdits, func(i, j int) bool { return idEdits[i].a < idEdits[j].a })
	atExit := ""
	if len(deferred) > 0 {
		atExit = strings.Join(deferred, "; ") + "; "
	}
	var body strings.Builder
	cur := coff(d.Body.Lbrace) + 1
	for _, r := range rets {
		body.WriteString(ctext(cur, coff(r.Pos())))
		var vals string
		switch {
		case len(r.Results) == 0 && nres > 0:
			if len(namedList) != nres {
				return nil, fmt.Errorf("bare return without named results")
			}
			vals = strings.Join(namedList, ", ")
		case len(r.Results) > 0:
			var parts []string
			for _, e := range r.Results {
				parts = append(parts, ctext(coff(e.Pos()), coff(e.End())))
			}
			vals = strings.Join(parts, ", ")
		}
		switch {
		case nres == 0:
			body.WriteString(atExit + "break " + label)
		case isDirectStmt:
			body.WriteString(strings.TrimSuffix(strings.Repeat("_, ", nres), ", ") + " = " + vals + "; " + atExit + "break " + label)
		default:
			body.WriteString(strings.Join(temps, ", ") + " = " + vals + "; " + atExit + "break " + label)
		}
		cur = coff(r.End())
	}
	body.WriteString(ctext(cur, coff(d.Body.Rbrace)))

	var out strings.Builder
	if wrap {
		out.WriteString("{\n")
	}
	if !isDirectStmt {
		for i, t := range temps {
			out.WriteString("var " + t + " " + tstr(sig.Results().At(i).Type()) + "\n")
		}
	}
	out.WriteString(label + ":\nfor {\n")
	for _, b := range binds {
		out.WriteString(b + "\n")
	}
	for _, b := range namedDecl {
		out.WriteString(b + "\n")
	}
	out.WriteString(body.String())
	out.WriteString("\n" + atExit + "break " + label + "\n}\n")
	if !isDirectStmt {
		out.WriteString(text(S.Pos(), s.call.Pos()) + strings.Join(temps, ", ") + text(s.call.End(), S.End()))
	}
	if wrap {
		out.WriteString("\n}")
	}
	if typeFail != "" {
		return nil, fmt.Errorf("%s", typeFail)
	}
	return splice(fset, src, S.Pos(), S.End(), out.String()), nil
}

func within(outer, inner ast.Node) bool {
	return outer != nil && outer.Pos() <= inner.Pos() && inner.End() <= outer.End()
}

func identOf(e ast.Expr) *ast.Ident {
	id, _ := e.(*ast.Ident)
	return id
}

func isPtrTo(ptr, elem types.Type) bool {
	p, ok := ptr.(*types.Pointer)
	return ok && types.Identical(p.Elem(), elem)
}

func calleeFunc(info *types.Info, call *ast.CallExpr) *types.Func {
	var id *ast.Ident
	switch f := call.Fun.(type) {
	case *ast.Ident:
		id = f
	case *ast.SelectorExpr:
		id = f.Sel
	}
	if id == nil {
		return nil
	}
	fn, _ := info.Uses[id].(*types.Func)
	return fn
}
