// Package norm normalises the loaded program before the rules run: helper functions that do not exist on the reference
// tree (the tree the rule tables were written against) are inlined, at source level, into their callers. "Extract a helper"
// is the most common behaviour-preserving refactoring; the rules anchor on the functions the properties name, so without
// this step the same code, moved into a new private function, would be reported (lost anchors, guards "missing" from the
// anchored function). With it the rules decide the property on a program that is equal in behaviour to the tree under
// analysis and has the shape they know.
//
// What is inlined: a named function or method of the module that is NOT in the reference list, is not generic, not variadic,
// has no defer / recover / labels / goto, is never used as a value (every use is a static call that is not a go or defer
// statement), and is not recursive. A call is replaced where it stands as a whole statement:
//
//	f(a, b)                  x, err := f(a, b)            x, err = f(a, b)            return f(a, b)
//	var x = f(a, b)          if err := f(a); err != nil   (and the call as an operand of a statement whose earlier
//	                                                       operands are free of calls: hoisted into a temporary first)
//
// by a block that binds the arguments to fresh names (one declaration per parameter, in order, so argument evaluation keeps
// its order), followed by the callee's body with its parameters renamed and each `return e1, e2` rewritten to
// `lhs1, lhs2 = e1, e2; break L` inside a one-trip `L: for { … }` (a `return f(…)` keeps the callee's returns). Everything is
// checked by type-checking the result; a site that cannot be handled is left alone (the helper then stays, and the rules see
// the tree as it is). A helper with no remaining use is removed.
//
// Nothing is executed, and the step is the identity on the reference tree (no new functions).
package norm

import (
	"bytes"
	_ "embed"
	"fmt"
	"go/ast"
	"go/token"
	"go/types"
	"os"
	"sort"
	"strings"

	"golang.org/x/tools/go/packages"

	"lbcheck/ir"
)

//go:embed reference_funcs.txt
var referenceFuncs string

// Reference returns the set of function keys of the reference tree.
func Reference() map[string]bool {
	m := map[string]bool{}
	for _, l := range strings.Split(referenceFuncs, "\n") {
		l = strings.TrimSpace(l)
		if l != "" && !strings.HasPrefix(l, "#") {
			m[l] = true
		}
	}
	return m
}

// DeclKey renders the key of a declared function: "<pkg>.<Name>" or "<pkg>.(<*?Recv>).<Name>", pkg module-relative.
func DeclKey(pkgPath string, d *ast.FuncDecl) string {
	pkg := ir.Short(pkgPath)
	if d.Recv == nil || len(d.Recv.List) == 0 {
		return pkg + "." + d.Name.Name
	}
	t := d.Recv.List[0].Type
	ptr := false
	if s, ok := t.(*ast.StarExpr); ok {
		ptr, t = true, s.X
	}
	if ix, ok := t.(*ast.IndexExpr); ok {
		t = ix.X
	}
	name := "?"
	if id, ok := t.(*ast.Ident); ok {
		name = id.Name
	}
	if ptr {
		return pkg + ".(*" + name + ")." + d.Name.Name
	}
	return pkg + ".(" + name + ")." + d.Name.Name
}

// ListFuncs lists the keys of every declared function of the module (non-test files).
func ListFuncs(p *ir.Program) []string {
	var out []string
	for _, pk := range p.Pkgs {
		for _, f := range pk.Syntax {
			for _, d := range f.Decls {
				if fd, ok := d.(*ast.FuncDecl); ok {
					out = append(out, DeclKey(pk.PkgPath, fd))
				}
			}
		}
	}
	sort.Strings(out)
	return out
}

type site struct {
	pk     *packages.Package
	file   *ast.File
	fname  string
	call   *ast.CallExpr
	callee *ast.FuncDecl
	cfile  *ast.File
	cname  string
}

// Result of a normalisation.
type Result struct {
	Prog    *ir.Program
	Inlined map[string]int // helper key -> call sites inlined
	Left    map[string]string
	Notes   []string
}

// Normalize inlines the helpers that are not in ref. reload is used when an incremental re-check is not possible
// (whole-program mode): it must load the tree with the given overlay.
func Normalize(p *ir.Program, ref map[string]bool, reload func(ov map[string][]byte) (*ir.Program, error)) (*Result, error) {
	res := &Result{Prog: p, Inlined: map[string]int{}, Left: map[string]string{}}
	overlay := map[string][]byte{}
	for k, v := range p.Overlay {
		overlay[k] = v
	}
	content := func(name string) ([]byte, error) {
		if c, ok := overlay[name]; ok {
			return c, nil
		}
		return os.ReadFile(name)
	}
	apply := func(cur *ir.Program, ov map[string][]byte) (*ir.Program, error) {
		if cur.Whole {
			return reload(ov)
		}
		np, err := cur.Mutate(ov)
		if err != nil && (strings.Contains(err.Error(), "not loaded") || strings.Contains(err.Error(), "undefined:")) {
			return reload(ov)
		}
		return np, err
	}
	skip := map[string]bool{} // site keys that failed
	cur := p
	for iter := 0; iter < 60; iter++ {
		newFns := findNew(cur, ref)
		if len(newFns) == 0 {
			break
		}
		progressed := false
		// innermost first: helpers that call no other new helper
		keys := make([]string, 0, len(newFns))
		for k := range newFns {
			keys = append(keys, k)
		}
		sort.Strings(keys)
		for _, k := range keys {
			nf := newFns[k]
			if why := inlinable(cur, nf, newFns); why != "" {
				if strings.HasPrefix(why, "used as a value") && !skip[k+"#eta"] {
					// a method / function value of the new helper: η-expand it into a literal that calls the helper
					fname, ns, err := etaExpand(cur, nf, content, iter)
					if err == nil && ns != nil {
						ov := cloneOv(overlay)
						ov[fname] = ns
						if np, aerr := apply(cur, ov); aerr == nil {
							overlay, cur, progressed = ov, np, true
							delete(res.Left, k)
							break
						} else {
							err = aerr
						}
					}
					skip[k+"#eta"] = true
					if err != nil {
						why += " (" + err.Error() + ")"
					}
				}
				res.Left[k] = why
				continue
			}
			sites := callSites(cur, nf)
			if len(sites) == 0 {
				// unused helper: remove the declaration
				src, err := content(nf.fname)
				if err != nil {
					return nil, err
				}
				start := nf.decl.Pos()
				if nf.decl.Doc != nil {
					start = nf.decl.Doc.Pos()
				}
				ns := splice(cur.Fset, src, start, nf.decl.End(), "")
				ov := cloneOv(overlay)
				ov[nf.fname] = ns
				np, err := apply(cur, ov)
				if err != nil {
					res.Left[k] = "removing the unused helper does not type-check: " + err.Error()
					skip[k+"#decl"] = true
					continue
				}
				overlay, cur, progressed = ov, np, true
				delete(res.Left, k)
				break
			}
			done := false
			for _, s := range sites {
				sk := fmt.Sprintf("%s@%s", k, cur.Fset.Position(s.call.Pos()))
				if skip[sk] {
					continue
				}
				src, err := content(s.fname)
				if err != nil {
					return nil, err
				}
				csrc, err := content(s.cname)
				if err != nil {
					return nil, err
				}
				ns, err := inlineAt(cur, s, src, csrc, iter)
				if err != nil {
					skip[sk] = true
					res.Left[k] = "call at " + cur.Fset.Position(s.call.Pos()).String() + ": " + err.Error()
					continue
				}
				ov := cloneOv(overlay)
				ov[s.fname] = ns
				np, err := apply(cur, ov)
				if err != nil {
					skip[sk] = true
					res.Left[k] = "inlined call at " + cur.Fset.Position(s.call.Pos()).String() + " does not type-check: " + err.Error()
					continue
				}
				overlay, cur, progressed, done = ov, np, true, true
				res.Inlined[k]++
				delete(res.Left, k)
				break
			}
			if done {
				break
			}
		}
		if !progressed {
			break
		}
	}
	res.Prog = cur
	if dir := os.Getenv("LBCHECK_DUMP_NORM"); dir != "" {
		for name, c := range overlay {
			_ = os.WriteFile(dir+"/"+strings.ReplaceAll(strings.TrimPrefix(name, "/"), "/", "_"), c, 0o644)
		}
	}
	var ks []string
	for k, n := range res.Inlined {
		ks = append(ks, fmt.Sprintf("%s (%d call site(s))", k, n))
	}
	sort.Strings(ks)
	if len(ks) > 0 {
		res.Notes = append(res.Notes, "normalisation: helper functions that are not on the reference tree were inlined into their callers before the rules ran: "+strings.Join(ks, ", "))
	}
	var ls []string
	for k, why := range res.Left {
		ls = append(ls, k+" ("+why+")")
	}
	sort.Strings(ls)
	if len(ls) > 0 {
		res.Notes = append(res.Notes, "normalisation: new functions left as they are: "+strings.Join(ls, "; "))
	}
	return res, nil
}

func cloneOv(m map[string][]byte) map[string][]byte {
	n := map[string][]byte{}
	for k, v := range m {
		n[k] = v
	}
	return n
}

type newFn struct {
	key   string
	pk    *packages.Package
	file  *ast.File
	fname string
	decl  *ast.FuncDecl
	obj   *types.Func
}

func findNew(p *ir.Program, ref map[string]bool) map[string]*newFn {
	out := map[string]*newFn{}
	for _, pk := range p.Pkgs {
		for i, f := range pk.Syntax {
			if i >= len(pk.CompiledGoFiles) {
				continue
			}
			for _, d := range f.Decls {
				fd, ok := d.(*ast.FuncDecl)
				if !ok || fd.Body == nil {
					continue
				}
				k := DeclKey(pk.PkgPath, fd)
				if ref[k] || fd.Name.Name == "init" || fd.Name.Name == "main" || p.IsRehomed(k) {
					continue
				}
				obj, _ := pk.TypesInfo.Defs[fd.Name].(*types.Func)
				if obj == nil {
					continue
				}
				out[k] = &newFn{key: k, pk: pk, file: f, fname: pk.CompiledGoFiles[i], decl: fd, obj: obj}
			}
		}
	}
	return out
}

// inlinable returns "" when every use of the function is a plain static call and its body has a shape we can splice.
func inlinable(p *ir.Program, nf *newFn, all map[string]*newFn) string {
	d := nf.decl
	if d.Type.TypeParams != nil && len(d.Type.TypeParams.List) > 0 {
		return "generic"
	}
	sig := nf.obj.Type().(*types.Signature)
	if sig.Variadic() {
		return "variadic"
	}
	if sig.Recv() != nil {
		if _, isIface := sig.Recv().Type().Underlying().(*types.Interface); isIface {
			return "interface method"
		}
		if tp, ok := d.Recv.List[0].Type.(*ast.IndexExpr); ok && tp != nil {
			return "generic receiver"
		}
	}
	why := ""
	ast.Inspect(d.Body, func(n ast.Node) bool {
		switch x := n.(type) {
		case *ast.DeferStmt:
			if !simpleTopLevelDefer(d, x) {
				why = "defers"
			}
		case *ast.LabeledStmt:
			// labels are renamed with the call site's suffix when the body is copied
		case *ast.BranchStmt:
			if x.Tok == token.GOTO {
				why = "goto"
			}
		case *ast.CallExpr:
			if id, ok := x.Fun.(*ast.Ident); ok && id.Name == "recover" {
				why = "recover"
			}
			// recursion, or a call of another new helper (inline that one first)
			var callee types.Object
			switch f := x.Fun.(type) {
			case *ast.Ident:
				callee = nf.pk.TypesInfo.Uses[f]
			case *ast.SelectorExpr:
				callee = nf.pk.TypesInfo.Uses[f.Sel]
			}
			if callee == types.Object(nf.obj) {
				why = "recursive"
			}
			for _, o := range all {
				if o != nf && callee == types.Object(o.obj) && inlinableShallow(o) {
					why = "calls another new helper (" + o.key + ") that is inlined first"
				}
			}
		}
		return why == ""
	})
	if why != "" {
		return why
	}
	// every use is the function position of a call that is not a go / defer statement
	for _, pk := range p.Pkgs {
		for _, f := range pk.Syntax {
			bad := ""
			var stack []ast.Node
			ast.Inspect(f, func(n ast.Node) bool {
				if n == nil {
					stack = stack[:len(stack)-1]
					return true
				}
				stack = append(stack, n)
				id, ok := n.(*ast.Ident)
				if !ok || pk.TypesInfo.Uses[id] != types.Object(nf.obj) {
					return true
				}
				// parent chain: [... CallExpr (Fun = id | SelectorExpr{Sel: id})]
				i := len(stack) - 2
				var fun ast.Expr = id
				if i >= 0 {
					if se, ok := stack[i].(*ast.SelectorExpr); ok && se.Sel == id {
						fun = se
						i--
					}
				}
				if i < 0 {
					bad = "used outside a call"
					return true
				}
				ce, ok := stack[i].(*ast.CallExpr)
				if !ok || ce.Fun != fun {
					bad = "used as a value at " + p.Fset.Position(id.Pos()).String()
					return true
				}
				if i >= 1 {
					switch st := stack[i-1].(type) {
					case *ast.GoStmt:
						if st.Call == ce {
							bad = "started as a goroutine"
						}
					case *ast.DeferStmt:
						if st.Call == ce {
							bad = "deferred"
						}
					}
				}
				return true
			})
			if bad != "" {
				return bad
			}
		}
	}
	return ""
}

func inlinableShallow(o *newFn) bool {
	ok := true
	ast.Inspect(o.decl.Body, func(n ast.Node) bool {
		if ds, isDefer := n.(*ast.DeferStmt); isDefer && !simpleTopLevelDefer(o.decl, ds) {
			ok = false
		}
		return ok
	})
	return ok
}

func callSites(p *ir.Program, nf *newFn) []site {
	var out []site
	for _, pk := range p.Pkgs {
		for i, f := range pk.Syntax {
			if i >= len(pk.CompiledGoFiles) {
				continue
			}
			ast.Inspect(f, func(n ast.Node) bool {
				ce, ok := n.(*ast.CallExpr)
				if !ok {
					return true
				}
				var id *ast.Ident
				switch fn := ce.Fun.(type) {
				case *ast.Ident:
					id = fn
				case *ast.SelectorExpr:
					id = fn.Sel
				}
				if id != nil && pk.TypesInfo.Uses[id] == types.Object(nf.obj) {
					out = append(out, site{pk: pk, file: f, fname: pk.CompiledGoFiles[i], call: ce, callee: nf.decl, cfile: nf.file, cname: nf.fname})
				}
				return true
			})
		}
	}
	return out
}

func splice(fset *token.FileSet, src []byte, from, to token.Pos, repl string) []byte {
	a, b := fset.Position(from).Offset, fset.Position(to).Offset
	var out bytes.Buffer
	out.Write(src[:a])
	out.WriteString(repl)
	out.Write(src[b:])
	return out.Bytes()
}


// simpleTopLevelDefer: the defer is a statement of the function body itself (not nested), defers a call without arguments
// on a selector (mu.Unlock(), mu.RUnlock(), wg.Done()), and no return precedes it. Such a function is inlined with the
// deferred call made explicitly at every exit (panics aside, that is what the defer does).
func simpleTopLevelDefer(d *ast.FuncDecl, x *ast.DeferStmt) bool {
	top := false
	for _, st := range d.Body.List {
		if st == ast.Stmt(x) {
			top = true
		}
	}
	if !top || len(x.Call.Args) != 0 {
		return false
	}
	if _, ok := x.Call.Fun.(*ast.SelectorExpr); !ok {
		return false
	}
	early := false
	ast.Inspect(d.Body, func(n ast.Node) bool {
		if r, ok := n.(*ast.ReturnStmt); ok && r.Pos() < x.Pos() {
			early = true
		}
		return true
	})
	return !early
}
