package main

import (
	"encoding/json"
	"fmt"
	"os"
	"os/exec"
	"path/filepath"
	"regexp"
	"runtime/debug"
	"sort"
	"strings"

	"lbcheck/eng"
	"lbcheck/ir"
	"lbcheck/rules"
)

// seedMeta is /verif/seeded/<id>/meta.json (and selftest/benign/<id>/meta.json).
type seedMeta struct {
	Property   string   `json:"property"`
	Properties []string `json:"also_check,omitempty"`
	Caught     *bool    `json:"caught_by_static_check"`
	Rules      []string `json:"caught_by_rules,omitempty"`
	Why        string   `json:"why_not_caught,omitempty"`
	Benign     bool     `json:"benign,omitempty"`
}

var diffFileRE = regexp.MustCompile(`(?m)^\+\+\+ b/(.+)$`)

// patchedFiles applies a unified diff to copies of the affected files and returns path -> new content.
func patchedFiles(repo, patch string) (map[string][]byte, error) {
	b, err := os.ReadFile(patch)
	if err != nil {
		return nil, err
	}
	tmp, err := os.MkdirTemp("", "lbcheck-seed-")
	if err != nil {
		return nil, err
	}
	defer os.RemoveAll(tmp)
	var files []string
	for _, m := range diffFileRE.FindAllStringSubmatch(string(b), -1) {
		files = append(files, m[1])
	}
	for _, f := range files {
		src := filepath.Join(repo, f)
		dst := filepath.Join(tmp, f)
		os.MkdirAll(filepath.Dir(dst), 0o755)
		c, err := os.ReadFile(src)
		if err != nil {
			// a file the patch creates (--- /dev/null): patch(1) writes it
			if strings.Contains(string(b), "--- /dev/null\n+++ b/"+f+"\n") {
				continue
			}
			return nil, fmt.Errorf("patch targets a missing file %s", f)
		}
		os.WriteFile(dst, c, 0o644)
	}
	cmd := exec.Command("patch", "-p1", "-s", "--no-backup-if-mismatch", "-d", tmp, "-i", patch)
	if out, err := cmd.CombinedOutput(); err != nil {
		return nil, fmt.Errorf("patch does not apply: %s", strings.TrimSpace(string(out)))
	}
	res := map[string][]byte{}
	for _, f := range files {
		c, err := os.ReadFile(filepath.Join(tmp, f))
		if err != nil {
			return nil, err
		}
		res[filepath.Join(repo, f)] = c
	}
	return res, nil
}

// selfTest evaluates every seeded change and benign variant through the overlay. When onlyProp is set, only seeds of
// that property are evaluated. Returns the number of expectations that did not hold.
func selfTest(root, onlyProp string, verbose bool) (ran, bad int, lines []string) {
	base, err := ir.Load(ir.Options{Dir: *flagRepo})
	if err != nil {
		return 0, 1, []string{"selftest: cannot load " + *flagRepo + ": " + err.Error()}
	}
	findings, _ := eng.LoadFindings(filepath.Join(root, "known_findings.json"))
	// failing obligations of the unmodified tree per property: only NEW failures count for a seed / variant
	baseFail := map[string]map[string]bool{}
	baseline := func(pid string) map[string]bool {
		if m, ok := baseFail[pid]; ok {
			return m
		}
		m := map[string]bool{}
		if pr := rules.Get(pid); pr != nil {
			eng.ResetLockCache()
			rules.ResetCaches()
			c := eng.NewCtx(base, pid, "quick")
			func() {
				defer func() { recover() }()
				pr.Run(c)
			}()
			c.ApplyFindings(findings)
			for _, o := range c.Failing() {
				m[o.Key()] = true
			}
		}
		baseFail[pid] = m
		return m
	}
	var dirs []string
	for _, pat := range []string{"seeded/*", "selftest/benign/*", "selftest/positive/*"} {
		ds, _ := filepath.Glob(filepath.Join(root, pat))
		dirs = append(dirs, ds...)
	}
	sort.Strings(dirs)
	for _, d := range dirs {
		mb, err := os.ReadFile(filepath.Join(d, "meta.json"))
		if err != nil {
			continue
		}
		var meta seedMeta
		if err := json.Unmarshal(mb, &meta); err != nil {
			lines = append(lines, fmt.Sprintf("SELFTEST %s: bad meta.json: %v", filepath.Base(d), err))
			bad++
			continue
		}
		props := append([]string{meta.Property}, meta.Properties...)
		if onlyProp != "" {
			has := false
			for _, p := range props {
				if p == onlyProp {
					has = true
				}
			}
			if !has {
				continue
			}
			props = []string{onlyProp}
			if onlyProp != meta.Property {
				meta.Caught = nil // expectation is recorded for the primary property only
			}
		}
		ran++
		name := filepath.Base(d)
		ov, err := patchedFiles(*flagRepo, filepath.Join(d, "patch.diff"))
		if err != nil {
			// the corpus is relative to the tree it was recorded on; when the tree under analysis differs there, the entry is skipped
			lines = append(lines, fmt.Sprintf("SELFTEST %s: skipped, does not apply to the current tree (%v)", name, strings.Split(err.Error(), "\n")[0]))
			ran--
			continue
		}
		eng.ResetLockCache()
		rules.ResetCaches()
		mp, err := base.Mutate(ov)
		if err != nil && (strings.Contains(err.Error(), "not loaded") || strings.Contains(err.Error(), "undefined:")) {
			mp, err = ir.Load(ir.Options{Dir: *flagRepo, Overlay: ov})
		}
		if err != nil {
			lines = append(lines, fmt.Sprintf("SELFTEST %s: skipped, patched tree does not type-check on the current tree: %v", name, err))
			ran--
			continue
		}
		if !*flagNoNorm {
			if nr, nerr := normalize(mp); nerr == nil {
				mp = nr.Prog
			}
		}
		var hit []string
		for _, pid := range props {
			pr := rules.Get(pid)
			if pr == nil {
				continue
			}
			bf := baseline(pid)
			eng.ResetLockCache()
			rules.ResetCaches()
			c := eng.NewCtx(mp, pid, "quick")
			func() {
				defer func() {
					if r := recover(); r != nil {
						hit = append(hit, pid+":PANIC")
					}
				}()
				pr.Run(c)
			}()
			c.ApplyFindings(findings)
			for _, o := range c.Failing() {
				if !bf[o.Key()] {
					hit = append(hit, pid+":"+o.Rule+" "+o.Construct)
				}
			}
		}
		caught := len(hit) > 0
		switch {
		case meta.Benign:
			if caught {
				bad++
				lines = append(lines, fmt.Sprintf("SELFTEST benign variant %s: FALSE ALARM %s", name, strings.Join(hit, "; ")))
			} else if verbose {
				lines = append(lines, fmt.Sprintf("SELFTEST benign variant %s: silent (ok)", name))
			}
		case meta.Caught != nil && *meta.Caught && !caught:
			bad++
			lines = append(lines, fmt.Sprintf("SELFTEST seed %s (%s): EXPECTED TO BE CAUGHT but every obligation is discharged — the checker regressed", name, meta.Property))
		case meta.Caught != nil && !*meta.Caught && caught:
			lines = append(lines, fmt.Sprintf("SELFTEST seed %s (%s): recorded as not caught, but now fires: %s (update meta.json)", name, meta.Property, strings.Join(hit, "; ")))
		case verbose || meta.Caught == nil:
			state := "MISSED"
			if caught {
				state = "caught by " + strings.Join(hit, "; ")
			}
			lines = append(lines, fmt.Sprintf("SELFTEST seed %s (%s): %s", name, meta.Property, state))
		}
	}
	return
}

// tryPatch evaluates one patch through the overlay and prints the failing obligations it adds.
func tryPatch(root, patch, props string) int {
	base, err := ir.Load(ir.Options{Dir: *flagRepo})
	if err != nil {
		fmt.Println("load:", err)
		return 2
	}
	findings, _ := eng.LoadFindings(filepath.Join(root, "known_findings.json"))
	ov, err := patchedFiles(*flagRepo, patch)
	if err != nil {
		fmt.Println(err)
		return 2
	}
	mp, err := base.Mutate(ov)
	if err != nil && (strings.Contains(err.Error(), "not loaded") || strings.Contains(err.Error(), "undefined:")) {
		mp, err = ir.Load(ir.Options{Dir: *flagRepo, Overlay: ov})
	}
	if err != nil {
		fmt.Println("patched tree does not type-check:", err)
		return 2
	}
	if !*flagNoNorm {
		if nr, nerr := normalize(mp); nerr == nil {
			mp = nr.Prog
			for _, n := range nr.Notes {
				fmt.Println("NOTE " + n)
			}
		} else {
			fmt.Println("NOTE normalisation skipped:", nerr)
		}
	}
	ids := rules.IDs()
	if props != "" && props != "all" {
		ids = strings.Split(props, ",")
	}
	n := 0
	for _, pid := range ids {
		pr := rules.Get(pid)
		if pr == nil {
			continue
		}
		run := func(p *ir.Program) map[string]*eng.Obligation {
			eng.ResetLockCache()
			rules.ResetCaches()
			c := eng.NewCtx(p, pid, "quick")
			func() {
				defer func() {
					if r := recover(); r != nil {
						c.Rule("PANIC", "engine")
						c.Undecided("analyser panic", "-", fmt.Sprint(r))
						if os.Getenv("LBCHECK_DEBUG") != "" {
							fmt.Println(string(debug.Stack()))
						}
					}
				}()
				pr.Run(c)
			}()
			c.ApplyFindings(findings)
			m := map[string]*eng.Obligation{}
			for _, o := range c.Failing() {
				m[o.Key()] = o
			}
			return m
		}
		b := run(base)
		a := run(mp)
		var keys []string
		for k := range a {
			if _, ok := b[k]; !ok {
				keys = append(keys, k)
			}
		}
		sort.Strings(keys)
		for _, k := range keys {
			o := a[k]
			n++
			fmt.Printf("%s %s [%s] %s @ %s :: %s\n", pid, o.Rule, o.Status, o.Construct, o.Pos, oneLine(o.Detail))
		}
	}
	fmt.Printf("trypatch: %d new failing obligation(s)\n", n)
	if n > 0 {
		return 1
	}
	return 0
}
