package main

import (
	"encoding/json"
	"fmt"
	"math/rand"
	"os"
	"os/exec"
	"path/filepath"
	"regexp"
	"runtime/debug"
	"sort"
	"strconv"
	"strings"
	"sync"
	"time"

	"lbcheck/eng"
	"lbcheck/ir"
	"lbcheck/mutate"
	"lbcheck/rules"
)

// auditResult is the outcome of the mutant sensitivity audit of one property.
type auditResult struct {
	Functions  int            `json:"anchored_functions"`
	Generated  int            `json:"mutants_generated"`
	Invalid    int            `json:"mutants_not_type_checking"`
	Killed     int            `json:"mutants_killed"`
	Survived   int            `json:"mutants_survived"`
	Capped     int            `json:"mutants_not_evaluated_cap"`
	ByOperator map[string]int `json:"killed_by_operator"`
	ByRule     map[string]int `json:"killed_by_rule"`
	Killers    []string       `json:"killed_samples"`
	Survivors  []string       `json:"survivor_samples"`
	Seconds    float64        `json:"seconds"`
	Note       string         `json:"note"`
	// behaviour-preserving rewrites of the same functions: every one that the check reports is a false alarm
	EquivGenerated int      `json:"equivalent_variants_generated"`
	EquivInvalid   int      `json:"equivalent_variants_not_type_checking"`
	EquivFlagged   int      `json:"equivalent_variants_flagged"`
	EquivSamples   []string `json:"equivalent_variants_flagged_samples"`
}

var posRE = regexp.MustCompile(`^(.+\.go):(\d+)$`)

// runAudit mutates the functions in which the property has discharged obligations and re-evaluates the property on each
// mutant through the overlay (one fresh process per mutant, 16 at a time). A mutant is killed when the check fails on it.
func runAudit(id string, c *eng.Ctx, seed int) *auditResult {
	t0 := time.Now()
	res := &auditResult{ByOperator: map[string]int{}, ByRule: map[string]int{},
		Note: "syntactic mutants (negated/relaxed conditions, swapped relational and logical operators, deleted calls/defers/continue/assignments, dropped ±1) of every function that contains a discharged obligation of this property; evaluated with the quick-tier analysis through the go/packages overlay, nothing is executed. Survivors are expected: many mutants do not touch the property (equivalent or irrelevant to it)."}
	lines := map[string]map[int]bool{}
	// obligations of the lock-discipline and lock-pairing rules anchor whole files; functions that (also) carry an obligation
	// of another rule are mutated first, so that the cap is not spent on code the property-specific rules do not look at
	prio := map[string]map[int]bool{}
	lockRule := map[string]bool{"R01.4": true, "R02.5": true, "R03.8": true, "R06.7": true, "R07.8": true, "R11.6": true, "R12.6": true, "R13.5": true, "R15.7": true}
	for _, o := range c.Obs {
		if o.Status != eng.Discharged {
			continue
		}
		m := posRE.FindStringSubmatch(o.Pos)
		if m == nil {
			continue
		}
		f := filepath.Join(*flagRepo, m[1])
		if strings.HasSuffix(f, ".pb.go") {
			continue
		}
		n, _ := strconv.Atoi(m[2])
		if lines[f] == nil {
			lines[f] = map[int]bool{}
		}
		lines[f][n] = true
		if !lockRule[o.Rule] {
			if prio[f] == nil {
				prio[f] = map[int]bool{}
			}
			prio[f][n] = true
		}
	}
	var all []mutate.Mutant
	funcs := map[string]bool{}
	var files []string
	for f := range lines {
		files = append(files, f)
	}
	sort.Strings(files)
	for _, f := range files {
		ms, err := mutate.File(f, lines[f])
		if err != nil {
			continue
		}
		for _, m := range ms {
			funcs[m.File+":"+m.Func] = true
		}
		all = append(all, ms...)
	}
	res.Functions = len(funcs)
	const capN = 640
	if len(all) > capN {
		prioFunc := map[string]bool{}
		for _, f := range files {
			if len(prio[f]) == 0 {
				continue
			}
			if ms, err := mutate.File(f, prio[f]); err == nil {
				for _, m := range ms {
					prioFunc[m.File+":"+m.Func] = true
				}
			}
		}
		r := rand.New(rand.NewSource(int64(seed) + 1))
		r.Shuffle(len(all), func(i, j int) { all[i], all[j] = all[j], all[i] })
		sort.SliceStable(all, func(i, j int) bool {
			return prioFunc[all[i].File+":"+all[i].Func] && !prioFunc[all[j].File+":"+all[j].Func]
		})
		res.Capped = len(all) - capN
		all = all[:capN]
	}
	res.Generated = len(all)
	// the counterpart: rewrites that do not change behaviour (operands swapped with the operator mirrored, a comparison written as
	// the negation of its complement, if/else exchanged under the negated condition) in the property-specific functions
	{
		var eq []mutate.Mutant
		for _, f := range files {
			src := prio[f]
			if len(src) == 0 {
				continue
			}
			if ms, err := mutate.Equivalents(f, src); err == nil {
				eq = append(eq, ms...)
			}
		}
		const capEq = 320
		if len(eq) > capEq {
			r := rand.New(rand.NewSource(int64(seed) + 7))
			r.Shuffle(len(eq), func(i, j int) { eq[i], eq[j] = eq[j], eq[i] })
			eq = eq[:capEq]
		}
		res.EquivGenerated = len(eq)
		all = append(all, eq...)
	}
	tmp, err := os.MkdirTemp("", "lbcheck-audit-")
	if err != nil {
		res.Note += " (audit skipped: " + err.Error() + ")"
		return res
	}
	defer os.RemoveAll(tmp)
	exe, _ := os.Executable()
	type outcome struct {
		m      mutate.Mutant
		status string // invalid, killed, survived
		rule   string
	}
	outs := make([]outcome, len(all))
	for i := range outs {
		outs[i] = outcome{m: all[i], status: "invalid"}
	}
	// batches: one worker process per batch; the worker loads the module once and re-type-checks only what a mutant touches
	const workers = 16
	type wm struct {
		Index   int    `json:"index"`
		File    string `json:"file"`
		Content string `json:"content"`
	}
	batches := make([][]wm, workers)
	for i, m := range all {
		src := filepath.Join(tmp, fmt.Sprintf("m%d.go", i))
		os.WriteFile(src, m.Content, 0o644)
		batches[i%workers] = append(batches[i%workers], wm{i, m.File, src})
	}
	var wg sync.WaitGroup
	var mu sync.Mutex
	for w, b := range batches {
		if len(b) == 0 {
			continue
		}
		wg.Add(1)
		go func(w int, b []wm) {
			defer wg.Done()
			bf := filepath.Join(tmp, fmt.Sprintf("batch%d.json", w))
			js, _ := json.Marshal(map[string]any{"prop": id, "mutants": b})
			os.WriteFile(bf, js, 0o644)
			cmd := exec.Command(exe, "-audit-worker", bf, "-repo", *flagRepo, "-verif", verifRoot())
			out, _ := cmd.Output()
			for _, line := range strings.Split(string(out), "\n") {
				var r struct {
					Index  int    `json:"index"`
					Status string `json:"status"`
					Rule   string `json:"rule"`
				}
				if json.Unmarshal([]byte(line), &r) != nil || r.Status == "" {
					continue
				}
				mu.Lock()
				outs[r.Index].status, outs[r.Index].rule = r.Status, r.Rule
				mu.Unlock()
			}
		}(w, b)
	}
	wg.Wait()
	rel := func(p string) string { return strings.TrimPrefix(p, *flagRepo+"/") }
	for _, o := range outs {
		desc := fmt.Sprintf("%s:%d %s %s: %s", rel(o.m.File), o.m.Line, o.m.Func, o.m.Op, o.m.Desc)
		if strings.HasPrefix(o.m.Op, "EQV-") {
			switch o.status {
			case "invalid":
				res.EquivInvalid++
			case "killed":
				res.EquivFlagged++
				if len(res.EquivSamples) < 40 {
					res.EquivSamples = append(res.EquivSamples, desc+" → "+o.rule)
				}
			}
			continue
		}
		switch o.status {
		case "invalid":
			res.Invalid++
		case "killed":
			res.Killed++
			res.ByOperator[o.m.Op]++
			res.ByRule[o.rule]++
			if len(res.Killers) < 25 {
				res.Killers = append(res.Killers, desc+" → "+o.rule)
			}
		default:
			res.Survived++
			if len(res.Survivors) < 25 {
				res.Survivors = append(res.Survivors, desc)
			}
		}
	}
	if dump := os.Getenv("LBCHECK_AUDIT_DUMP"); dump != "" {
		var sb strings.Builder
		for _, o := range outs {
			fmt.Fprintf(&sb, "%s\t%s\t%s:%d\t%s\t%s\t%s\n", id, o.status, rel(o.m.File), o.m.Line, o.m.Func, o.m.Op, o.m.Desc+" "+o.rule)
		}
		f, err := os.OpenFile(dump, os.O_APPEND|os.O_CREATE|os.O_WRONLY, 0o644)
		if err == nil {
			f.WriteString(sb.String())
			f.Close()
		}
	}
	res.Seconds = float64(int(time.Since(t0).Seconds()*10)) / 10
	return res
}

// auditWorker evaluates a batch of mutants in one process: base load once, then incremental re-type-check per mutant.
func auditWorker(batchFile string) {
	b, err := os.ReadFile(batchFile)
	if err != nil {
		fmt.Println(err)
		os.Exit(2)
	}
	var batch struct {
		Prop    string `json:"prop"`
		Mutants []struct {
			Index   int    `json:"index"`
			File    string `json:"file"`
			Content string `json:"content"`
		} `json:"mutants"`
	}
	if err := json.Unmarshal(b, &batch); err != nil {
		fmt.Println(err)
		os.Exit(2)
	}
	pr := rules.Get(batch.Prop)
	base, err := ir.Load(ir.Options{Dir: *flagRepo})
	if err != nil || pr == nil {
		fmt.Println("worker load failed:", err)
		os.Exit(2)
	}
	findings, _ := eng.LoadFindings(filepath.Join(verifRoot(), "known_findings.json"))
	enc := json.NewEncoder(os.Stdout)
	for _, m := range batch.Mutants {
		content, err := os.ReadFile(m.Content)
		res := map[string]any{"index": m.Index, "status": "invalid", "rule": ""}
		if err == nil {
			func() {
				defer func() {
					if r := recover(); r != nil {
						res["status"], res["rule"] = "killed", "PANIC"
					}
				}()
				eng.ResetLockCache()
				rules.ResetCaches()
				mp, err := base.Mutate(map[string][]byte{m.File: content})
				if err != nil {
					return
				}
				c := eng.NewCtx(mp, batch.Prop, "quick")
				pr.Run(c)
				c.ApplyFindings(findings)
				fails := c.Failing()
				if len(fails) == 0 {
					res["status"] = "survived"
				} else {
					res["status"], res["rule"] = "killed", fails[0].Rule
				}
			}()
		}
		enc.Encode(res)
		debug.FreeOSMemory()
	}
}
