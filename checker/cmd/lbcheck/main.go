// lbcheck decides structural clauses of the liftbridge properties from /repo's current source.
package main

import (
	"encoding/json"
	"flag"
	"fmt"
	"os"
	"path/filepath"
	"runtime/debug"
	"sort"
	"strconv"
	"strings"
	"time"

	"lbcheck/eng"
	"lbcheck/ir"
	"lbcheck/norm"
	"lbcheck/rules"
)

var (
	flagProp     = flag.String("prop", "", "property id (C01..C19), comma list, or 'all'")
	flagTier     = flag.String("tier", "", "quick or thorough (default: $VERIF_TIER or quick)")
	flagRepo     = flag.String("repo", "/repo", "repository root")
	flagVerif    = flag.String("verif", "", "verif root (default: directory above the binary)")
	flagReplay   = flag.String("replay", "", "replay file: re-evaluate that obligation and print the diagnosis")
	flagList     = flag.Bool("list", false, "print every obligation")
	flagOverlay  = flag.String("overlay", "", "JSON file mapping source paths to replacement files (sensitivity audit / seeded self-test)")
	flagTry      = flag.String("trypatch", "", "apply a unified diff through the overlay and print the new failing obligations of -prop (default all)")
	flagSelf     = flag.Bool("selftest", false, "evaluate every seeded change in seeded/ and every benign variant in selftest/benign/ through the overlay")
	flagWorker   = flag.String("audit-worker", "", "internal: evaluate a batch of mutants (JSON file) and print one JSON outcome per line")
	flagNoAudit  = flag.Bool("no-audit", false, "thorough tier without the mutant sensitivity audit")
	flagWriteRef = flag.Bool("write-reference", false, "write checker/norm/reference_funcs.txt from the current tree and exit")
	flagNoNorm   = flag.Bool("no-normalise", false, "do not inline helpers that are not on the reference tree")
	flagMani     = flag.Bool("manifest", false, "print MANIFEST.json generated from the registered properties")
	flagNoEv     = flag.Bool("no-evidence", false, "do not write evidence/replay files (used by the audit)")
)

func verifRoot() string {
	if *flagVerif != "" {
		return *flagVerif
	}
	exe, err := os.Executable()
	if err == nil {
		d := filepath.Dir(filepath.Dir(exe))
		if _, err := os.Stat(filepath.Join(d, "properties.jsonl")); err == nil {
			return d
		}
	}
	return "/verif"
}

type replayFile struct {
	Property  string `json:"property"`
	Rule      string `json:"rule"`
	Construct string `json:"construct"`
	Pos       string `json:"pos"`
	Status    string `json:"status"`
	Detail    string `json:"detail"`
	Tier      string `json:"tier"`
	HowTo     string `json:"how_to_replay"`
}

func main() {
	ir.ReferenceKeys = norm.Reference()
	ir.ReferenceArity = eng.ReferenceArities()
	flag.Parse()
	tier := *flagTier
	if tier == "" {
		tier = os.Getenv("VERIF_TIER")
	}
	if tier != "thorough" {
		tier = "quick"
	}
	seed := 0
	if s := os.Getenv("VERIF_SEED"); s != "" {
		if n, err := strconv.Atoi(s); err == nil {
			seed = n
		}
	}
	root := verifRoot()
	if *flagWorker != "" {
		auditWorker(*flagWorker)
		return
	}
	if *flagMani {
		writeManifest(root)
		return
	}
	if *flagTry != "" {
		os.Exit(tryPatch(root, *flagTry, strings.TrimSpace(*flagProp)))
	}
	if *flagSelf {
		ran, bad, lines := selfTest(root, strings.TrimSpace(*flagProp), true)
		for _, l := range lines {
			fmt.Println(l)
		}
		fmt.Printf("selftest: %d seeded changes / variants evaluated, %d expectation(s) not met\n", ran, bad)
		if bad > 0 {
			os.Exit(1)
		}
		return
	}
	var only *replayFile
	if *flagReplay != "" {
		b, err := os.ReadFile(*flagReplay)
		if err != nil {
			fmt.Println("cannot read replay file:", err)
			os.Exit(2)
		}
		only = &replayFile{}
		if err := json.Unmarshal(b, only); err != nil {
			fmt.Println("bad replay file:", err)
			os.Exit(2)
		}
		*flagProp = only.Property
		if only.Tier == "thorough" {
			tier = "thorough"
		}
	}
	var ids []string
	switch *flagProp {
	case "":
		fmt.Println("usage: lbcheck -prop <id>|all [-tier quick|thorough] | -replay <file>")
		os.Exit(2)
	case "all":
		ids = rules.IDs()
	default:
		ids = strings.Split(*flagProp, ",")
	}
	for _, id := range ids {
		if rules.Get(id) == nil {
			fmt.Printf("unknown property %s\n", id)
			os.Exit(2)
		}
	}
	findings, err := eng.LoadFindings(filepath.Join(root, "known_findings.json"))
	if err != nil {
		fmt.Println("cannot read known_findings.json:", err)
		os.Exit(2)
	}

	t0 := time.Now()
	overlay, oerr := readOverlay(*flagOverlay)
	if oerr != nil {
		fmt.Println("cannot read overlay:", oerr)
		os.Exit(2)
	}
	prog, err := ir.Load(ir.Options{Dir: *flagRepo, Whole: tier == "thorough", Overlay: overlay})
	exit := 0
	if err != nil {
		// A tree that does not load or type-check cannot be analysed: fail every requested property.
		for _, id := range ids {
			rp := writeReplay(root, id, 1, &eng.Obligation{Rule: "LOAD", Kind: "load", Construct: "load " + *flagRepo, Status: eng.Unresolved, Detail: err.Error()}, tier)
			fmt.Printf("LOAD-FAILURE: %v\n", err)
			fmt.Printf("VIOLATION property=%s replay=%s\n", id, rp)
			writeEvidence(root, id, tier, seed, nil, nil, ir.Stats{}, time.Since(t0), 1, err.Error(), nil)
		}
		os.Exit(1)
	}
	if *flagWriteRef {
		list := norm.ListFuncs(prog)
		out := "# functions declared on the reference tree (one key per line); anything else is a new helper that lbcheck inlines\n# into its callers before the rules run — regenerate with: lbcheck -prop C01 -write-reference\n" + strings.Join(list, "\n") + "\n"
		if err := os.WriteFile(filepath.Join(root, "checker", "norm", "reference_funcs.txt"), []byte(out), 0o644); err != nil {
			fmt.Println(err)
			os.Exit(2)
		}
		fmt.Printf("wrote %d function keys\n", len(list))
		var pl []string
		for _, fn := range prog.Funcs {
			var names []string
			for _, q := range fn.Params {
				names = append(names, q.Name())
			}
			pl = append(pl, ir.FuncKey(fn)+"\t"+strings.Join(names, ","))
		}
		sort.Strings(pl)
		pout := "# parameter names of every module function on the reference tree (function key, TAB, names in order, receiver first):\n# eng.Param(name) resolves names through this table, so renaming a parameter does not disturb the rules\n" + strings.Join(pl, "\n") + "\n"
		if err := os.WriteFile(filepath.Join(root, "checker", "eng", "reference_params.txt"), []byte(pout), 0o644); err != nil {
			fmt.Println(err)
			os.Exit(2)
		}
		fmt.Printf("wrote %d parameter lists\n", len(pl))
		os.Exit(0)
	}
	var normNotes []string
	if !*flagNoNorm {
		nr, nerr := normalize(prog)
		if nerr != nil {
			fmt.Printf("NOTE normalisation skipped: %v\n", nerr)
			normNotes = append(normNotes, "normalisation skipped: "+nerr.Error())
		} else {
			prog = nr.Prog
			normNotes = nr.Notes
			for _, n := range nr.Notes {
				fmt.Println("NOTE " + n)
			}
		}
	}
	stats := prog.Stats()
	if stats.Packages < 11 {
		fmt.Printf("LOAD-FAILURE: only %d module packages loaded (expected >= 11)\n", stats.Packages)
		for _, id := range ids {
			fmt.Printf("VIOLATION property=%s replay=%s\n", id, writeReplay(root, id, 1, &eng.Obligation{Rule: "LOAD", Construct: "package count", Status: eng.Unresolved, Detail: "too few packages"}, tier))
		}
		os.Exit(1)
	}
	loadDur := time.Since(t0)

	for _, id := range ids {
		t1 := time.Now()
		pr := rules.Get(id)
		c := eng.NewCtx(prog, id, tier)
		for _, n := range normNotes {
			c.Note("%s", n)
		}
		func() {
			defer func() {
				if r := recover(); r != nil {
					c.Rule("PANIC", "engine")
					c.Undecided("analyser panic", "-", fmt.Sprintf("%v\n%s", r, debug.Stack()))
				}
			}()
			pr.Run(c)
		}()
		// cover what the build covers: every non-test Go file under the module root must be part of a loaded package
		if overlay == nil {
			missing, nfiles := prog.UnanalysedFiles()
			if len(missing) > 0 {
				// Files the default build configuration excludes cannot change the behaviour of the binary that configuration
				// produces, so this is reported (and recorded in the evidence), not failed.
				c.Note("file set: %d of %d non-test Go files are excluded from the default build (build constraint or ignored file) and were not analysed: %s", len(missing), nfiles, strings.Join(missing, ", "))
				fmt.Printf("NOTE %s: not analysed (excluded from the default build): %s\n", id, strings.Join(missing, ", "))
			} else {
				c.Note("file set: all %d non-test Go files under the module root are in loaded packages", nfiles)
			}
		}
		c.ApplyFindings(findings)
		c.SortObs()
		if only != nil {
			found := false
			for _, o := range c.Obs {
				if o.Rule == only.Rule && o.Construct == only.Construct {
					found = true
					fmt.Printf("REPLAY property=%s rule=%s\n  construct: %s\n  at: %s\n  status now: %s\n  detail: %s\n", id, o.Rule, o.Construct, o.Pos, o.Status, o.Detail)
					if o.Status != eng.Discharged && o.Known == "" {
						exit = 1
					}
				}
			}
			if !found {
				fmt.Printf("REPLAY property=%s rule=%s construct=%q: the obligation no longer exists in the current tree (recorded: %s at %s)\n", id, only.Rule, only.Construct, only.Detail, only.Pos)
			}
			continue
		}
		if *flagList {
			for _, o := range c.Obs {
				fmt.Printf("  [%s] %s %s | %s @ %s :: %s\n", o.Status, o.Rule, o.Kind, o.Construct, o.Pos, oneLine(o.Detail))
			}
		}
		for _, o := range c.KnownHits() {
			fmt.Printf("KNOWN-FINDING: property=%s rule=%s %s at %s — %s\n", id, o.Rule, o.Construct, o.Pos, o.Known)
		}
		fails := c.Failing()
		for i, o := range fails {
			rp := "-"
			if !*flagNoEv {
				rp = writeReplay(root, id, i+1, o, tier)
			}
			fmt.Printf("%s rule=%s(%s) construct=%q at %s: %s\n", strings.ToUpper(string(o.Status)), o.Rule, o.Kind, o.Construct, o.Pos, oneLine(o.Detail))
			fmt.Printf("VIOLATION property=%s replay=%s\n", id, rp)
		}
		n, d := c.Counts()
		fmt.Printf("%s tier=%s obligations=%d discharged=%d known-findings=%d failing=%d (load %.1fs, rules %.2fs; %d pkgs, %d funcs)\n",
			id, tier, n, d, len(c.KnownHits()), len(fails), loadDur.Seconds(), time.Since(t1).Seconds(), stats.Packages, stats.Functions)
		if len(fails) > 0 {
			exit = 1
		}
		// thorough: the checker's own regression corpus for this property (seeded changes must fire, benign variants must not)
		if tier == "thorough" && only == nil && !*flagNoEv && overlay == nil {
			ran, bad, lines := selfTest(root, id, false)
			for _, l := range lines {
				fmt.Println(l)
			}
			fmt.Printf("%s self-test: %d seeded changes / benign variants of this property re-evaluated through the overlay, %d expectation(s) not met\n", id, ran, bad)
			c.Note("self-test: %d seeded changes / benign variants re-evaluated, %d expectations not met", ran, bad)
			if bad > 0 {
				exit = 1
				fmt.Printf("VIOLATION property=%s replay=%s\n", id, writeReplay(root, id, 99, &eng.Obligation{Rule: "SELFTEST", Kind: "selftest", Construct: "seeded corpus", Status: eng.Undecided, Detail: strings.Join(lines, " | ")}, tier))
			}
		}
		var audit *auditResult
		if tier == "thorough" && !*flagNoAudit && !*flagNoEv && len(fails) == 0 && only == nil {
			audit = runAudit(id, c, seed)
			fmt.Printf("%s sensitivity audit: %d mutants of %d anchored functions, %d invalid (do not type-check), %d killed, %d survived (%.0fs)\n",
				id, audit.Generated, audit.Functions, audit.Invalid, audit.Killed, audit.Survived, audit.Seconds)
			fmt.Printf("%s robustness audit: %d behaviour-preserving rewrites of the same functions, %d invalid, %d reported by the check (each one would be a false alarm)\n",
				id, audit.EquivGenerated, audit.EquivInvalid, audit.EquivFlagged)
			for _, sm := range audit.EquivSamples {
				fmt.Printf("  FALSE-ALARM-CANDIDATE %s\n", sm)
			}
		}
		if !*flagNoEv {
			writeEvidence(root, id, tier, seed, pr, c, stats, loadDur+time.Since(t1), len(fails), "", audit)
		}
	}
	os.Exit(exit)
}

func oneLine(s string) string {
	s = strings.ReplaceAll(s, "\n", " ⏎ ")
	if len(s) > 600 {
		s = s[:600] + "…"
	}
	return s
}

func writeReplay(root, id string, n int, o *eng.Obligation, tier string) string {
	dir := filepath.Join(root, "replay")
	os.MkdirAll(dir, 0o755)
	path := filepath.Join(dir, fmt.Sprintf("%s-%d.json", id, n))
	rf := replayFile{Property: id, Rule: o.Rule, Construct: o.Construct, Pos: o.Pos, Status: string(o.Status), Detail: o.Detail, Tier: tier,
		HowTo: "bin/lbcheck -replay " + path + " re-evaluates this obligation against /repo's current tree"}
	b, _ := json.MarshalIndent(rf, "", " ")
	os.WriteFile(path, b, 0o644)
	return path
}

func writeEvidence(root, id, tier string, seed int, pr *rules.Property, c *eng.Ctx, st ir.Stats, dur time.Duration, fails int, loadErr string, audit *auditResult) {
	dir := filepath.Join(root, "evidence")
	os.MkdirAll(dir, 0o755)
	level := "other"
	if pr != nil && pr.Level != "" {
		level = pr.Level
	}
	cov := map[string]any{}
	ev := map[string]any{
		"property_id": id, "tier": tier, "seed": seed, "level": level, "coverage": cov,
		"wall_s": float64(int(dur.Seconds()*100)) / 100, "violations": fails,
	}
	if c == nil {
		cov["explanation"] = "the repository did not load or type-check, nothing was analysed: " + loadErr
		cov["obligations"] = 0
		cov["discharged"] = 0
	} else {
		n, d := c.Counts()
		perRule := map[string]map[string]int{}
		nontrivial := 0
		distinct := map[string]bool{}
		for _, o := range c.Obs {
			m := perRule[o.Rule]
			if m == nil {
				m = map[string]int{}
				perRule[o.Rule] = m
			}
			m["sites"]++
			m[string(o.Status)]++
			if !distinct[o.Key()] && o.Status != eng.Unresolved {
				distinct[o.Key()] = true
				nontrivial++
			}
		}
		for r, f := range c.Floors {
			if perRule[r] == nil {
				perRule[r] = map[string]int{}
			}
			perRule[r]["floor"] = f
		}
		// samples: up to 3 per rule, violated first
		var samples []any
		obs := append([]*eng.Obligation(nil), c.Obs...)
		sort.SliceStable(obs, func(i, j int) bool { return obs[i].Status != eng.Discharged && obs[j].Status == eng.Discharged })
		perRuleN := map[string]int{}
		for _, o := range obs {
			if perRuleN[o.Rule] >= 3 || len(samples) >= 60 {
				continue
			}
			perRuleN[o.Rule]++
			samples = append(samples, o)
		}
		cov["explanation"] = pr.Explanation
		cov["obligations"] = n
		cov["discharged"] = d
		cov["known_findings"] = len(c.KnownHits())
		cov["evaluations"] = n
		cov["distinct_nontrivial"] = nontrivial
		cov["rule"] = "one obligation per rule instance and construct (function, field, call site keyed by callee and enclosing function) found in /repo's type-checked SSA form; distinct = distinct rule+construct keys whose anchors resolved; an obligation is non-trivial when its target construct matched at least one site in the current tree"
		cov["samples"] = samples
		cov["per_rule"] = perRule
		cov["analysed"] = map[string]any{"packages": st.Packages, "files": st.Files, "functions": st.Functions, "basic_blocks": st.Blocks, "instructions": st.Instrs,
			"ir": map[bool]string{true: "whole-program SSA + VTA call graph", false: "module-only SSA + CHA/static call graph"}[tier == "thorough"]}
		cov["checker_cmd"] = "bin/lbcheck -prop " + id + " -tier " + tier
		cov["trusted_base"] = []string{"go/types and go/packages (Go 1.25.3 toolchain)", "golang.org/x/tools v0.29.0 go/ssa, callgraph/cha, callgraph/vta", "the rule instance tables in /verif/checker/rules (slots filled from the repository, see DESIGN.md §4)"}
		cov["exhaustive"] = false
		if len(c.Notes) > 0 {
			cov["notes"] = c.Notes
		}
		if audit != nil {
			cov["sensitivity_audit"] = audit
			cov["evaluations"] = n + audit.Generated - audit.Invalid
		}
		ev["assumptions"] = append([]string{
			"every CFG path of the SSA form is assumed feasible (path-insensitive over-approximation)",
			"structural necessary conditions only: the runtime behaviour quantified by the property is not decided",
		}, pr.Assumptions...)
	}
	b, _ := json.MarshalIndent(ev, "", " ")
	os.WriteFile(filepath.Join(dir, id+".json"), b, 0o644)
}

var allProps = []string{"C01", "C02", "C03", "C04", "C05", "C06", "C07", "C08", "C09", "C10", "C11", "C12", "C13", "C14", "C15", "C16", "C17", "C18", "C19"}

func writeManifest(root string) {
	type level struct {
		Category  string `json:"category"`
		Text      string `json:"text"`
		DesignRef string `json:"design_ref,omitempty"`
	}
	type check struct {
		PropertyID string `json:"property_id"`
		Quick      string `json:"quick_cmd"`
		Thorough   string `json:"thorough_cmd"`
		Evidence   string `json:"evidence_file"`
		Replay     string `json:"replay_cmd_template"`
		Engine     string `json:"engine"`
		Level      level  `json:"level_claimed"`
		Note       string `json:"level_note"`
		Technique  string `json:"technique"`
	}
	type na struct {
		PropertyID string `json:"property_id"`
		Reason     string `json:"reason"`
	}
	checks := []check{}
	nas := []na{}
	var served []string
	for _, id := range allProps {
		pr := rules.Get(id)
		if pr == nil {
			nas = append(nas, na{id, naReasons[id]})
			continue
		}
		served = append(served, id)
		checks = append(checks, check{
			PropertyID: id,
			Quick:      "./bin/lbcheck -prop " + id + " -tier quick",
			Thorough:   "./bin/lbcheck -prop " + id + " -tier thorough",
			Evidence:   "/verif/evidence/" + id + ".json",
			Replay:     "./bin/lbcheck -replay {path}",
			Engine:     "lbcheck",
			Level:      level{pr.Level, pr.LevelText, pr.DesignRef},
			Note:       pr.LevelNote,
			Technique:  pr.Technique,
		})
	}
	m := map[string]any{
		"version":   1,
		"setup_cmd": "cd /verif/checker && GOFLAGS=-mod=vendor GOPROXY=off GOWORK=off go build -o ../bin/lbcheck ./cmd/lbcheck",
		"hooks": map[string]any{
			"guard":            "verif",
			"enable":           "none needed: lbcheck reads /repo's source (type-checked syntax and SSA); no instrumentation is compiled into liftbridge",
			"baseline_off_cmd": "cd /repo && GOFLAGS=-mod=mod GOPROXY=off go test -vet=off -count=1 -timeout 25m ./...",
			"source_commits":   []string{},
			"add_only":         true,
		},
		"engines": []any{map[string]any{
			"name": "lbcheck", "path": "/verif/checker", "serves_properties": served,
			"kind_free_text": "repository-specific static analyser over go/packages + go/ssa (x/tools v0.29.0, vendored): guard dominance, path ordering, who-may-call, lock-held, provenance, exhaustive tables, bounds on untrusted bytes; quick = module-only SSA + CHA, thorough = whole program + VTA",
		}},
		"checks":         checks,
		"not_applicable": nas,
		"notes":          "Technique family: static analysis. Every check loads /repo's current working tree on every run and executes no liftbridge code. Genuine defects recorded rather than repaired are in /verif/known_findings.json.",
	}
	b, _ := json.MarshalIndent(m, "", " ")
	os.WriteFile(filepath.Join(root, "MANIFEST.json"), append(b, '\n'), 0o644)
	fmt.Println("wrote", filepath.Join(root, "MANIFEST.json"), "checks:", len(checks), "not_applicable:", len(nas))
}

// reasons for properties without a registered check
var naReasons = map[string]string{}

func init() {
	for _, id := range allProps {
		naReasons[id] = "no check registered yet in this build round: the structural rule instances planned in DESIGN.md §4 for " + id + " are not implemented, so nothing is claimed"
	}
}

func readOverlay(path string) (map[string][]byte, error) {
	if path == "" {
		return nil, nil
	}
	b, err := os.ReadFile(path)
	if err != nil {
		return nil, err
	}
	var m map[string]string
	if err := json.Unmarshal(b, &m); err != nil {
		return nil, err
	}
	out := map[string][]byte{}
	for k, v := range m {
		c, err := os.ReadFile(v)
		if err != nil {
			return nil, err
		}
		out[k] = c
	}
	return out, nil
}

// normalize inlines helpers that are not on the reference tree (package norm).
func normalize(p *ir.Program) (*norm.Result, error) {
	return norm.Normalize(p, norm.Reference(), func(ov map[string][]byte) (*ir.Program, error) {
		return ir.Load(ir.Options{Dir: p.Dir, Whole: p.Whole, Overlay: ov})
	})
}
