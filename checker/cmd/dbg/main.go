package main

import (
	"fmt"
	"os"

	"lbcheck/eng"
	"lbcheck/ir"
	"lbcheck/rules"
)

func main() {
	p, err := ir.Load(ir.Options{Dir: "/repo"})
	if err != nil {
		fmt.Println(err)
		os.Exit(1)
	}
	n, bad := 0, 0
	for _, o := range rules.ErrorGatesProbe(p, os.Args[1:]...) {
		n++
		if o.Status != eng.Discharged {
			bad++
			fmt.Println(o.Status, o.Construct, o.Pos, "::", o.Detail)
		}
	}
	fmt.Println("obligations", n, "failing", bad)
}
