package main

import (
	"fmt"
	"os"

	"lbcheck/eng"
	"lbcheck/ir"
)

func main() {
	p, err := ir.Load(ir.Options{Dir: "/repo"})
	if err != nil {
		fmt.Println(err)
		os.Exit(1)
	}
	n := 0
	for _, fn := range p.Funcs {
		for _, f := range eng.LockPairing(fn) {
			n++
			if !f.OK {
				fmt.Println("UNPAIRED", ir.FuncKey(fn), p.InstrPos(f.Instr), f.Mutex, f.Detail)
			}
		}
	}
	fmt.Println("lock sites", n)
}
