package main

import (
	"fmt"
	"go/types"
	"os"
	"sort"

	"golang.org/x/tools/go/ssa"

	"lbcheck/eng"
	"lbcheck/ir"
)

func main() {
	p, err := ir.Load(ir.Options{Dir: "/repo"})
	if err != nil {
		fmt.Println(err)
		os.Exit(1)
	}
	c := eng.NewCtx(p, "dbg", "quick")
	roots := []*ssa.Function{p.Func("server.(*Server).apply"), p.Func("server.(*Server).Restore"), p.Func("server.(*Server).finishedRecovery"), p.Func("server.(*Server).Snapshot")}
	boundary := map[string]bool{"server.(*partition).startLeadingOrFollowing": true, "server.(*consumerGroup).startMemberTimers": true, "server.(*consumerGroup).startMemberTimer": true, "server/commitlog.New": true,
		"server.(*partition).stopLeadingOrFollowing": true}
	P := c.Reachable(roots, boundary, false)
	var keys []string
	for f := range P {
		keys = append(keys, ir.FuncKey(f))
	}
	sort.Strings(keys)
	fmt.Println("P size", len(keys))
	for _, k := range keys {
		f := p.Func(k)
		eng.Instrs(f, func(in ssa.Instruction) {
			if r, ok := in.(*ssa.Range); ok {
				if _, ok := r.X.Type().Underlying().(*types.Map); ok {
					fmt.Println("MAPRANGE", k, p.InstrPos(in), eng.Describe(r.X))
				}
			}
			if _, ok := in.(*ssa.Go); ok {
				fmt.Println("GO", k, p.InstrPos(in))
			}
		})
	}
	if len(os.Args) > 1 {
		for _, k := range keys {
			fmt.Println(" ", k)
		}
	}
}
