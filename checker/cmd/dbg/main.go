package main

import (
	"fmt"
	"go/types"
	"os"
	"sort"
	"strings"

	"lbcheck/eng"
	"lbcheck/ir"
	"lbcheck/rules"
)

func main() {
	p, err := ir.Load(ir.Options{Dir: "/repo"})
	if err != nil {
		fmt.Println(err)
		os.Exit(1)
	}
	pk := p.ByPath[os.Args[1]]
	scope := pk.Types.Scope()
	names := scope.Names()
	sort.Strings(names)
	for _, n := range names {
		tn, ok := scope.Lookup(n).(*types.TypeName)
		if !ok {
			continue
		}
		st, ok := tn.Type().Underlying().(*types.Struct)
		if !ok {
			continue
		}
		var mus []*types.Var
		for i := 0; i < st.NumFields(); i++ {
			f := st.Field(i)
			ts := f.Type().String()
			if ts == "sync.Mutex" || ts == "sync.RWMutex" {
				mus = append(mus, f)
			}
		}
		for i := 0; i < st.NumFields(); i++ {
			f := st.Field(i)
			if strings.HasPrefix(f.Type().String(), "sync.") {
				continue
			}
			for _, mu := range mus {
				obs := rules.LockTableProbe(p, os.Args[1], n, f.Name(), mu.Name())
				good, bad := 0, 0
				var where []string
				for _, o := range obs {
					if o.Status == eng.Discharged {
						good++
					} else {
						bad++
						where = append(where, o.Construct)
					}
				}
				if good == 0 || bad > 3 {
					continue
				}
				fmt.Printf("%s.%s under %s: ok %d bad %d %v\n", n, f.Name(), mu.Name(), good, bad, where)
			}
		}
	}
}
